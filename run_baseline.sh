#!/bin/sh
# runs the repository's own test-suite with every verification hook OFF and reports pass/fail counts
# usage: run_baseline.sh [junit-xml-path]
OUT="${1:-/tmp/vf_baseline_$$.xml}"
cd /repo && env -u PGPY_VERIF /venv/bin/python -m pytest -ra -q -p no:cacheprovider --timeout=900 --continue-on-collection-errors --junitxml="$OUT" 2>&1 | tail -3
