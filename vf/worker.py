"""one shard = one subprocess:  python -m vf.worker Cxx tier seed shard nshards outfile soft_budget"""
import json
import sys

from . import core


def main(argv):
    prop, tier, seed, shard, nshards, out, soft = argv[0], argv[1], int(argv[2]), int(argv[3]), int(argv[4]), argv[5], float(argv[6])
    core.setup_path()
    import os
    if os.environ.get('VERIF_STALL_DUMP'):
        # debugging aid only: on this interpreter (3.12.1) the watchdog thread's traceback dump can take the process down with it
        import faulthandler
        faulthandler.dump_traceback_later(float(os.environ['VERIF_STALL_DUMP']), repeat=True, file=sys.stderr)
    mod = core.load_prop(prop)
    ctx = core.Ctx(prop, tier, seed, shard, nshards)
    core.run_cases(ctx, mod, budget=soft)
    json.dump(ctx.dump(), open(out, 'w'), default=str)
    return 0


if __name__ == '__main__':
    sys.exit(main(sys.argv[1:]))
