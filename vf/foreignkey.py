"""Transferable secret keys written entirely by the reference encoder and signer (never by PGPy): what another OpenPGP implementation
would hand to PGPy.  The encodings are legal but deliberately not PGPy's own: subpacket lengths in the five-octet form, issuer in the
hashed area, unknown (non-critical) subpackets, a boolean with value octet 0, old-format packet headers."""
from .ref import wire, keys as RK, sig as RS
from . import pool

STYLES = ['plain', 'len5', 'len5-unhashed', 'unknown-subpackets', 'issuer-hashed', 'old-headers']


def _sp(style):
    lf = 5 if style in ('len5', 'len5-unhashed') else 'min'
    return lambda t, body, critical=False, unh=False: wire.subpacket(t, body, critical, lenform=(5 if (lf == 5 and (style == 'len5' or unh)) else 'min'))


def _hdr(tag, body, style):
    if style == 'old-headers':
        return wire.old_hdr(tag, len(body)) + body
    return wire.new_hdr(tag, len(body)) + body


def build(primary, sub=None, style='len5', uid=b'Foreign Key <foreign@example.org>', created=1500000000, protect=None, sub_flags=None, extra_uid=None,
          primary_alg=None, sub_alg=None, sub_protect='same', primary_flags=b'\x03'):
    """-> (secret transferable key octets, description dict with the signature bodies as written).
    created=None: the pool's own creation times (so that fingerprints equal those of pool.mat(name))"""
    sp = _sp(style)
    pm = pool.mat(primary, created)
    if primary_alg is not None:
        pm = dict(pm, alg=primary_alg)        # e.g. the deprecated RSA identifiers 3 (sign only) / 2 (encrypt only)
    base = created
    created = pm['created']
    prim_pub = RK.pub_body(pm)
    fpr = RK.fpr_of(pm)
    out = _hdr(5, RK.sec_body(pm, protect), style)
    sigs = []

    def areas(key, ts, extra):
        hashed = sp(2, int(ts).to_bytes(4, 'big')) + extra
        if style == 'unknown-subpackets':
            hashed += sp(100, b'private use') + sp(7, b'\x01')          # experimental subpacket; revocable = true
        kfpr = RK.fpr_of(key)
        hashed += sp(33, b'\x04' + kfpr)
        iss = sp(16, kfpr[-8:], unh=True)
        if style == 'issuer-hashed':
            return hashed + iss, b''
        if style == 'unknown-subpackets':
            iss += sp(101, b'unhashed private', unh=True)
        return hashed, iss

    def selfcert(uidbody, ts, flags=b'\x03', primary_flag=None):
        extra = sp(27, flags) + sp(21, bytes([8, 10])) + sp(11, bytes([9, 7])) + sp(22, bytes([2, 1])) + sp(30, b'\x01')
        if primary_flag is not None:
            extra += sp(25, bytes([primary_flag]))
        h, u = areas(pm, ts, extra)
        return RS.sign(pm, 0x13, 8, h, u, primary=prim_pub, uid=uidbody)

    out += _hdr(13, uid, style)
    b = selfcert(uid, created + 10, flags=primary_flags, primary_flag=1)
    sigs.append(b)
    out += _hdr(2, b, style)
    if extra_uid:
        out += _hdr(13, extra_uid, style)
        b = selfcert(extra_uid, created + 20, flags=b'\x01', primary_flag=0)
        sigs.append(b)
        out += _hdr(2, b, style)
    if sub:
        sm = pool.mat(sub, None if base is None else created + 5)
        if sub_alg is not None:
            sm = dict(sm, alg=sub_alg)
            if sub_alg == 2 and sub_flags is None:
                sub_flags = b'\x0c'
        sub_pub = RK.pub_body(sm)
        out += _hdr(7, RK.sec_body(sm, protect if sub_protect == 'same' else sub_protect), style)
        signing = sm['alg'] in (1, 17, 19, 22) and sm['alg'] != 18
        if sub_flags is None:
            sub_flags = b'\x0c' if sm['alg'] == 18 else (b'\x02' if sm['alg'] != 1 else b'\x0e')
        extra = sp(27, sub_flags)
        h, u = areas(pm, created + 30, extra)
        if signing and sub_flags[0] & 0x02:
            eh, eu = areas(sm, created + 30, b'')
            emb = RS.sign(sm, 0x19, 8, eh, eu, primary=prim_pub, subkey=sub_pub)
            u = u + sp(32, emb, unh=True)
        b = RS.sign(pm, 0x18, 8, h, u, primary=prim_pub, subkey=sub_pub)
        sigs.append(b)
        out += _hdr(2, b, style)
    return out, {'fingerprint': fpr.hex().upper(), 'sig_bodies': sigs, 'style': style}
