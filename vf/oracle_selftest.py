"""Validation of Oracle A before it is trusted: (1) vf.ref imports with pgpy blocked; (2) it parses every GnuPG-made
fixture key of the repository and verifies every self-issued signature in them; (3) its own signer/verifier,
encryptor/decryptor and key protector agree with each other.  Run:  python -m vf.oracle_selftest"""
import glob
import json
import os
import subprocess
import sys

from . import core
from .ref import wire, keys as RK, sig as RS, sym, pk, armor, grammar
from . import pool


def independent_import():
    code = ("import sys; sys.modules['pgpy']=None; import vf.ref; "
            "assert not [m for m in sys.modules if m.startswith('pgpy.')]; print('ok')")
    r = subprocess.run([sys.executable, '-B', '-c', code], cwd=core.VERIF, capture_output=True, text=True, timeout=60)
    return r.stdout.strip() == 'ok'


def verify_key_blob(raw, stats, label='', canonical=False, ignore_left16=False):
    """verify every signature in a transferable key whose issuer is a component of the same key"""
    for key in grammar.parse_keys(wire.split(raw)):
        prim = RK.parse_pub(key['primary'].body)
        if canonical:
            prim['pubbody'] = RK.pub_body(prim)
        comps = {RK.fingerprint(prim['pubbody'])[-8:]: prim}
        subs = []
        for kp, sigs in key['subkeys']:
            try:
                sk = RK.parse_pub(kp.body)
            except wire.Malformed:
                stats['skipped_unparsed_subkey'] = stats.get('skipped_unparsed_subkey', 0) + 1
                continue
            if canonical:
                sk['pubbody'] = RK.pub_body(sk)
            comps[RK.fingerprint(sk['pubbody'])[-8:]] = sk
            subs.append((sk, sigs))

        def one(sigpkt, **subj):
            try:
                s = RS.parse_sig(sigpkt.body, strict=False)
            except wire.Malformed:
                stats['skipped_v3_or_malformed'] = stats.get('skipped_v3_or_malformed', 0) + 1
                return
            iss = RS.issuer(s)
            if iss not in comps or s['halg'] == 3:
                stats['skipped_third_party'] = stats.get('skipped_third_party', 0) + 1
                return
            data = RS.hash_input(s, **subj)
            if ignore_left16 and s['halg'] in RS.HASHNAME:
                s['left16'] = RS.digest(s['halg'], data)[:2]
            ok, why = RS.verify(s, comps[iss], data)
            stats.setdefault('per_sig', []).append(((s['hashed_region'], tuple(s['mpis'] or ())), ok))
            stats['verified' if ok else 'rejected'] = stats.get('verified' if ok else 'rejected', 0) + 1
            if not ok:
                stats.setdefault('rejected_examples', []).append('%s type=0x%02x %s' % (label, s['type'], why))
            for b in RS.sp_get(s, 32):
                es = RS.parse_sig(b, strict=False)
                if RS.issuer(es) not in comps:
                    stats['skipped_third_party'] = stats.get('skipped_third_party', 0) + 1
                    continue
                edata = RS.hash_input(es, **subj)
                if ignore_left16 and es['halg'] in RS.HASHNAME:
                    es['left16'] = RS.digest(es['halg'], edata)[:2]
                ok2, why2 = RS.verify(es, comps[RS.issuer(es)], edata)
                stats.setdefault('per_sig', []).append(((es['hashed_region'], tuple(es['mpis'] or ())), ok2))
                stats['verified' if ok2 else 'rejected'] = stats.get('verified' if ok2 else 'rejected', 0) + 1

        for sp in key['direct']:
            one(sp, primary=prim['pubbody'])
        for up, sigs in key['uids']:
            for sp in sigs:
                if up.tag == 13:
                    one(sp, primary=prim['pubbody'], uid=up.body)
                else:
                    one(sp, primary=prim['pubbody'], ua=up.body)
        for sk, sigs in subs:
            for sp in sigs:
                one(sp, primary=prim['pubbody'], subkey=sk['pubbody'])


def run():
    st = {'independent_import': independent_import()}
    fx = {}
    for f in sorted(glob.glob(os.path.join(core.REPO, 'tests/testdata/keys/*.asc')) + glob.glob(os.path.join(core.REPO, 'tests/testdata/*test.asc'))):
        try:
            d = armor.dearmor(open(f, 'rb').read())
            verify_key_blob(d['data'], fx, os.path.basename(f))
            fx['files'] = fx.get('files', 0) + 1
        except (wire.Malformed, grammar.NotGrammatical) as e:
            fx.setdefault('unparsed', []).append('%s: %s' % (os.path.basename(f), e))
    st['fixture_keys'] = fx
    # own signer <-> own verifier, every algorithm x hash
    sv = {'ok': 0, 'bad': 0}
    for name in pool.SIGNERS:
        k = pool.mat(name)
        for halg in (1, 2, 8, 9, 10, 11):
            hashed, unhashed = RS.std_areas(k, 1600000000)
            try:
                body = RS.sign(k, 0, halg, hashed, unhashed, doc=b'abc')
            except Exception as e:
                sv.setdefault('sign_errors', []).append('%s/%d %r' % (name, halg, e))
                continue
            s = RS.parse_sig(body)
            ok, _ = RS.verify(s, k, RS.hash_input(s, doc=b'abc'))
            ok2, _ = RS.verify(s, k, RS.hash_input(s, doc=b'abd'))
            sv['ok' if ok and not ok2 else 'bad'] += 1
    st['sign_verify'] = sv
    # own encryptor <-> own decryptor
    ed = {'ok': 0, 'bad': 0}
    for name in pool.ENCRYPTERS:
        k = pool.mat(name)
        for c in (2, 3, 4, 7, 8, 9, 11, 12, 13):
            sk = bytes(range(sym.keylen(c)))
            try:
                c2, sk2 = pk.pkesk_decrypt(pk.pkesk_build(k, c, sk), k)
                body = sym.seipd_encrypt(c, sk, b'\xcb\x03b\x00\x00', bytes(sym.blocksize(c)))
                pt, _ = sym.seipd_decrypt(c, sk2, body)
                ed['ok' if (c2, sk2, pt) == (c, sk, b'\xcb\x03b\x00\x00') else 'bad'] += 1
            except Exception as e:
                ed['bad'] += 1
                ed.setdefault('errors', []).append('%s/%d %r' % (name, c, e))
    st['encrypt_decrypt'] = ed
    # key protection
    kp = {'ok': 0, 'bad': 0}
    for name in ('rsa1024_0', 'dsa1024_0', 'ed25519_0', 'cv25519_0', 'ecdsa_p256_0', 'elg1024_0'):
        k = pool.mat(name)
        for usage in (254, 255):
            for spec in (0, 1, 3):
                prot = dict(usage=usage, cipher=9, s2k=(spec, 8, b'12345678', 0x60), iv=bytes(range(16)), passphrase=b'pw')
                body = RK.sec_body(k, prot)
                _, sec, _ = RK.parse_sec(body, b'pw')
                good = all(sec[f] == k[f] for f in RK.SECF[k['alg']])
                try:
                    RK.parse_sec(body, b'px')
                    good = False
                except RK.BadPassphrase:
                    pass
                kp['ok' if good else 'bad'] += 1
    st['key_protection'] = kp
    st['ok'] = bool(st['independent_import'] and not fx.get('rejected') and fx.get('verified', 0) > 50 and not sv['bad']
                    and not ed['bad'] and not kp['bad'])
    return st


if __name__ == '__main__':
    core.setup_path()
    r = run()
    print(json.dumps(r, indent=1))
    sys.exit(0 if r['ok'] else 1)
