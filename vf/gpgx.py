"""Oracle B (optional): GnuPG in a throw-away home directory.  Never required: available() False => callers count 'gpg_absent'."""
import os
import shutil
import subprocess
import tempfile

GPG = shutil.which('gpg')


def available():
    return GPG is not None


class Home(object):
    def __init__(self):
        self.dir = None

    def __enter__(self):
        base = os.environ.get('VERIF_SCRATCH') or None
        self.dir = tempfile.mkdtemp(prefix='g', dir=base if base and len(base) < 40 else None)
        os.chmod(self.dir, 0o700)
        with open(os.path.join(self.dir, 'gpg.conf'), 'w') as f:
            f.write('no-auto-check-trustdb\ntrust-model always\nno-tty\nallow-weak-digest-algos\nallow-weak-key-signatures\n')
        return self

    def __exit__(self, *a):
        try:
            subprocess.run(['gpgconf', '--homedir', self.dir, '--kill', 'all'], capture_output=True, timeout=20)
        except Exception:
            pass
        shutil.rmtree(self.dir, ignore_errors=True)

    def run(self, args, data=None, passphrase='', timeout=60):
        cmd = [GPG, '--homedir', self.dir, '--batch', '--yes', '--no-tty', '--pinentry-mode', 'loopback', '--passphrase', passphrase,
               '--status-fd', '2'] + list(args)
        try:
            r = subprocess.run(cmd, input=data, capture_output=True, timeout=timeout)
        except subprocess.TimeoutExpired:
            return None, b'', b'TIMEOUT'
        return r.returncode, r.stdout, r.stderr

    def tmp(self, data, name='f'):
        p = os.path.join(self.dir, name)
        with open(p, 'wb') as f:
            f.write(data)
        return p

    def import_key(self, blob):
        rc, out, err = self.run(['--import'], data=bytes(blob))
        return rc == 0 or b'IMPORT_OK' in err, err.decode('latin-1')

    def verify_detached(self, sig, data):
        sp = self.tmp(bytes(sig), 's.sig')
        dp = self.tmp(bytes(data), 's.dat')
        rc, out, err = self.run(['--verify', sp, dp])
        e = err.decode('latin-1')
        return ('GOODSIG' in e or 'VALIDSIG' in e) and 'BADSIG' not in e, e

    def verify_inline(self, blob):
        rc, out, err = self.run(['--verify'], data=bytes(blob))
        e = err.decode('latin-1')
        return ('GOODSIG' in e or 'VALIDSIG' in e) and 'BADSIG' not in e, e

    def decrypt(self, blob, passphrase=''):
        rc, out, err = self.run(['--decrypt'], data=bytes(blob), passphrase=passphrase)
        e = err.decode('latin-1')
        if 'DECRYPTION_OKAY' in e:
            return out, e
        return None, e

    def symmetric(self, data, passphrase, cipher='AES256', s2k_mode=3, s2k_digest='SHA256', s2k_count=65536, compress=0):
        rc, out, err = self.run(['--symmetric', '--cipher-algo', cipher, '--s2k-mode', str(s2k_mode), '--s2k-digest-algo', s2k_digest,
                                 '--s2k-count', str(s2k_count), '--compress-algo', str(compress), '-o', '-'], data=bytes(data), passphrase=passphrase)
        return out if rc == 0 and out else None

    def encrypt(self, data, recipients, cipher='AES256', compress=0, extra=()):
        args = ['--encrypt', '--cipher-algo', cipher, '--compress-algo', str(compress), '-o', '-']
        for r in recipients:
            args += ['-r', r]
        rc, out, err = self.run(args + list(extra), data=bytes(data))
        return out if rc == 0 and out else None

    def sign(self, data, user, mode='--detach-sign', digest='SHA256', extra=()):
        rc, out, err = self.run(['-u', user, '--digest-algo', digest, mode, '-o', '-'] + list(extra), data=bytes(data))
        return out if rc == 0 and out else None

    def list_packets(self, blob):
        rc, out, err = self.run(['--list-packets'], data=bytes(blob))
        return out.decode('latin-1') + err.decode('latin-1')

    def check_sigs(self, keyid):
        rc, out, err = self.run(['--with-colons', '--check-sigs', keyid])
        return out.decode('latin-1')

    def export(self, keyid, secret=False):
        rc, out, err = self.run(['--export-secret-keys' if secret else '--export', keyid])
        return out if rc == 0 else None
