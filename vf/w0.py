"""run the repository's own test-suite under the W0 monitors (vf/w0plugin.py) and return what they observed"""
import json
import os
import subprocess
import sys
import tempfile

from . import core


def run(timeout=900):
    scratch = os.environ.get('VERIF_SCRATCH') or tempfile.mkdtemp(prefix='vfw0')
    out = os.path.join(scratch, 'w0_%d.json' % os.getpid())
    env = dict(os.environ, PYTHONPATH=core.VERIF + os.pathsep + core.REPO, VF_W0_OUT=out, PYTHONDONTWRITEBYTECODE='1')
    env.pop('PGPY_VERIF', None)
    cmd = [sys.executable, '-B', '-m', 'pytest', '-q', '-p', 'no:cacheprovider', '-p', 'vf.w0plugin', '--timeout=900', '--continue-on-collection-errors', '-x', '--maxfail=100000']
    cmd.remove('-x')
    r = subprocess.run(cmd, cwd=core.REPO, env=env, capture_output=True, text=True, timeout=timeout)
    tail = r.stdout.strip().splitlines()[-1] if r.stdout.strip() else ''
    res = {'events': {}, 'violations': {}, 'pytest_summary': tail}
    if os.path.exists(out):
        res.update(json.load(open(out)))
        os.unlink(out)
    return res


def feed(ctx, prop, counter_key):
    """helper for property modules: run W0 once and account this property's monitor"""
    res = run()
    n = res['events'].get(counter_key, 0)
    ctx.count('w0_events_' + counter_key, n)
    ctx.count('evaluations', n)
    ctx.flags['w0'] = {'pytest_summary': res['pytest_summary'], 'events': {k: v for k, v in res['events'].items() if k.startswith(prop) or k == 'monitor_errors'}}
    for v in res['violations'].get(prop, []):
        ctx.fail('w0:' + v['kind'], {'detail': v['detail'], 'test': v['test']})
    if res['events'].get('monitor_errors'):
        ctx.observe('w0_monitor_errors', res['events']['monitor_errors'])
    return res
