"""Shared encryption workload: recipients, message construction, and the reference view of an encrypted message."""
import os
import warnings

from .ref import wire, keys as RK, sym, pk as RPK, grammar
from . import pool

CIPHERS = {'TripleDES': 2, 'CAST5': 3, 'Blowfish': 4, 'AES128': 7, 'AES192': 8, 'AES256': 9, 'Camellia128': 11, 'Camellia192': 12, 'Camellia256': 13}
S2K_HASHES = ['MD5', 'SHA1', 'RIPEMD160', 'SHA224', 'SHA256', 'SHA384', 'SHA512']
COMPRESSIONS = ['Uncompressed', 'ZIP', 'ZLIB', 'BZ2']
RECIPIENTS = ['rsa1024_1', 'rsa2048_1', 'rsa3072_0', 'cv25519_0', 'ecdh_p256_0', 'ecdh_p384_0', 'ecdh_p521_0', 'ecdh_k256_0', 'ecdh_p256_1+kdf10.9', 'cv25519_1+kdf9.8']


def recipient(name, as_subkey=True, flags='both'):
    """-> (private PGPKey able to decrypt, raw material of the encrypting component); flags: which of the two encryption capabilities the
    encrypting component is granted ('both', 'comm', 'storage')"""
    from pgpy.constants import KeyFlags
    m = pool.mat(name)
    enc = {'both': {KeyFlags.EncryptCommunications, KeyFlags.EncryptStorage}, 'comm': {KeyFlags.EncryptCommunications}, 'storage': {KeyFlags.EncryptStorage}}[flags]
    if m['alg'] == 1 and not as_subkey:
        k = pool.pgpy_key(name, uid='RSA recipient %s %s' % (name, flags), usage={KeyFlags.Certify, KeyFlags.Sign} | enc)
    else:
        k = pool.pgpy_key('ed25519_2', uid='recipient with subkey %s %s' % (name, flags), sub=name, sub_usage=enc)
    return k, m


_PUBS = {}


def longlived_pub(k):
    """one public key object per private key object for the life of the process (what an application that keeps a recipient's key does);
    k.pubkey itself builds a new twin on every access"""
    if id(k) not in _PUBS:
        _PUBS[id(k)] = (k, k.pubkey)
    return _PUBS[id(k)][1]


def body_of(desc, rng):
    b = desc['body']
    if b == 'empty':
        return b''
    if b == 'one':
        return b'\x00'
    if b == 'text':
        return 'The quick brown fox\njumps over the lazy dog\r\nünïcödé 日本\n' * 3
    if b == 'ascii':
        return 'plain ascii text\nwith two lines\n'
    if b == 'binary':
        return bytes(range(256)) * 3 + b'\r\n\x00'
    if b == 'zeros':
        return b'\x00' * 5000
    if b == 'zeros1m':
        return b'\x00' * 1000000        # compresses better than 1000:1 under every algorithm (20000:1 under BZ2)
    if b == '64k':
        return bytes(rng.getrandbits(8) for _ in range(65536))
    if b == 'far':
        # repeats 9 000 - 30 000 octets back: only a full 32 KiB window writes and reads them
        blk = bytes(rng.getrandbits(8) for _ in range(30000))
        return blk + blk[:21000] + blk[9000:] + blk[100:12000]
    if b == '4m':
        blk = bytes(rng.getrandbits(8) for _ in range(4096))
        return blk * 1024
    raise ValueError(b)


def make_message(desc, rng):
    """PGPMessage from {'body','comp','format'?,'filename'?,'mtime'?}"""
    import pgpy
    from pgpy.constants import CompressionAlgorithm
    content = body_of(desc, rng)
    kw = {'compression': getattr(CompressionAlgorithm, desc.get('comp', 'ZIP'))}
    if desc.get('format'):
        kw['format'] = desc['format']
    if desc.get('sensitive'):
        kw['sensitive'] = True
    with warnings.catch_warnings():
        warnings.simplefilter('ignore')
        if desc.get('filename') is not None:
            d = os.environ.get('VERIF_SCRATCH') or '/tmp'
            sub = os.path.join(d, 'f%d' % os.getpid())
            os.makedirs(sub, exist_ok=True)
            path = os.path.join(sub, desc['filename'])
            data = content.encode('utf-8') if isinstance(content, str) else content
            with open(path, 'wb') as f:
                f.write(data)
            os.utime(path, (desc.get('mtime', 1500000000), desc.get('mtime', 1500000000)))
            try:
                m = pgpy.PGPMessage.new(path, file=True, **kw)
            finally:
                os.unlink(path)
        else:
            m = pgpy.PGPMessage.new(content, **kw)
    return m, content


def msg_fields(m):
    """observable fields of a (decrypted or original) literal message"""
    lit = m._message
    msg_ = m.message
    return {'content': bytes(lit._contents), 'filename': lit.filename, 'mtime': int(lit.mtime.timestamp()), 'format': lit.format,
            'compression': int(m._compression), 'signatures': sorted(bytes(s).hex() for s in m.signatures),
            # the same through the public accessors
            'api_filename': m.filename, 'api_compressed': m.is_compressed, 'api_sensitive': m.is_sensitive,
            'api_message': (msg_.encode('utf-8', 'surrogateescape') if isinstance(msg_, str) else bytes(msg_)).hex()[:4000]}


def ref_open(blob, secrets):
    """reference view of an encrypted message.
    secrets: list of ('key', material dict) / ('pass', bytes).  -> dict(esk=[...], results=[per secret: (alg, key) or Exception], data=Pkt)"""
    pkts = wire.split(blob)
    tree = grammar.parse_message(pkts)
    if tree['kind'] != 'encrypted':
        raise grammar.NotGrammatical('not an encrypted message')
    out = {'esk': tree['esk'], 'data': tree['data'], 'results': []}
    for kind, sec in secrets:
        got = None
        for e in tree['esk']:
            try:
                if kind == 'key' and e.tag == 1:
                    f = RPK.pkesk_fields(e.body)
                    if f['keyid'] != RK.keyid_of(sec) and f['keyid'] != b'\x00' * 8:
                        continue
                    got = RPK.pkesk_decrypt(e.body, sec)
                    break
                if kind == 'pass' and e.tag == 3:
                    alg, key = sym.skesk_session(e.body, sec)
                    if alg in sym.CIPHERS and len(key) == sym.keylen(alg):
                        # a wrong passphrase yields garbage: accept only if the data packet then opens
                        try:
                            open_data(tree['data'], alg, key)
                            got = (alg, key)
                            break
                        except Exception:
                            continue
            except Exception as ex:
                got = ex
        out['results'].append(got)
    return out


def open_data(pkt, alg, key):
    """-> (plaintext packet octets, prefix)"""
    if pkt.tag == 18:
        return sym.seipd_decrypt(alg, key, pkt.body)
    pt = sym.sed_decrypt(alg, key, pkt.body)
    return pt, None


def ref_encrypt(plain_packets, cipher, session, recipients, prefix=None, legacy_sed=False, framing='new', rng=None):
    """reference-built encrypted message. recipients: list of ('key', material) / ('pass', passphrase, s2kspec, direct?)"""
    import os as _os
    bs = sym.blocksize(cipher)
    prefix = prefix or _os.urandom(bs)
    out = b''
    for r in recipients:
        if r[0] == 'key':
            body = RPK.pkesk_build(r[1], cipher, session)
            out += _hdr(1, body, framing)
        else:
            pw, spec, direct = r[1], r[2], r[3]
            if direct:
                body = sym.skesk_build(cipher, spec, pw)
            else:
                body = sym.skesk_build(r[4] if len(r) > 4 else cipher, spec, pw, session, cipher)
            out += _hdr(3, body, framing)
    if legacy_sed:
        body = sym.sed_encrypt(cipher, session, plain_packets, prefix)
        out += _hdr(9, body, framing)
    else:
        body = sym.seipd_encrypt(cipher, session, plain_packets, prefix)
        if framing == 'partial' and len(body) > 1200:
            out += wire.partial_body(18, body, [9, 9])
        else:
            out += _hdr(18, body, framing)
    return out


def _hdr(tag, body, framing):
    if framing == 'old' and tag < 16:
        return wire.old_hdr(tag, len(body)) + body
    return wire.new_hdr(tag, len(body)) + body


def literal_packet(data, fmt=b'b', filename=b'', mtime=0, framing='new'):
    body = fmt + bytes([len(filename)]) + filename + int(mtime).to_bytes(4, 'big') + bytes(data)
    return _hdr(11, body, framing)
