"""Shared machinery: per-worker context (counters, samples, violations), case sharding, evidence, known findings."""
import collections
import hashlib
import importlib
import json
import os
import random
import sys
import time
import traceback

VERIF = os.path.dirname(os.path.dirname(os.path.abspath(__file__)))
REPO = os.environ.get('VERIF_REPO', '/repo')
PROPS = ['C%02d' % i for i in range(1, 21)]


def setup_path():
    """import pgpy from the working tree under test, never write bytecode into it"""
    sys.dont_write_bytecode = True
    if REPO not in sys.path:
        sys.path.insert(0, REPO)
    deps = os.path.join(VERIF, '.deps')
    if os.path.isdir(deps) and deps not in sys.path:
        sys.path.append(deps)
    import warnings
    warnings.simplefilter('ignore')
    import logging
    logging.disable(logging.CRITICAL)


def jdigest(obj):
    return hashlib.sha1(json.dumps(obj, sort_keys=True, default=str).encode()).hexdigest()[:16]


def hx(b):
    return bytes(b).hex()


def unhx(s):
    return bytes.fromhex(s)


class Ctx(object):
    MAX_SAMPLES = 6
    MAX_VIOL = 40

    def __init__(self, prop, tier, seed, shard=0, nshards=1, replay=False):
        self.prop = prop
        self.tier = tier
        self.seed = seed
        self.shard = shard
        self.nshards = nshards
        self.replay = replay
        self.counters = collections.Counter()
        self.outcomes = collections.Counter()
        self.observations = collections.Counter()
        self.samples = []
        self.digests = set()
        self.violations = []
        self.findings = {}
        self.flags = {}
        self.case = None
        self.mod = None
        self.t0 = time.time()

    # -- counting
    def count(self, name, n=1):
        self.counters[name] += n

    def outcome(self, name, n=1):
        self.outcomes[name] += n

    def observe(self, name, n=1):
        """something noteworthy that the property does not judge"""
        self.observations[name] += n

    def nontrivial(self, obj):
        self.digests.add(obj if isinstance(obj, str) and len(obj) == 16 else jdigest(obj))

    def sample(self, obj, force=False):
        if len(self.samples) < self.MAX_SAMPLES or force:
            self.samples.append(obj)

    def rng(self, *salt):
        return random.Random(jdigest([self.seed, self.prop] + list(salt)))

    # -- verdicts
    def fail(self, kind, detail=None, mech=None):
        """an oracle disagreed.  kind: short stable label; detail: JSON-able witness."""
        self.count('oracle_disagreements')
        if mech is None and self.mod is not None and hasattr(self.mod, 'classify'):
            try:
                mech = self.mod.classify(self, kind, detail, self.case)
            except Exception as e:  # a classifier crash must never hide a violation
                mech = None
                detail = {'detail': detail, 'classifier_error': repr(e)}
        if mech is not None:
            f = self.findings.setdefault(mech, {'n': 0, 'witness': None})
            f['n'] += 1
            if f['witness'] is None:
                f['witness'] = {'kind': kind, 'detail': detail, 'case': self.case}
            return
        if self.replay:
            print('  FAIL kind=%s detail=%s' % (kind, json.dumps(detail, default=str)[:2000]))
        if len(self.violations) < self.MAX_VIOL:
            self.violations.append({'kind': kind, 'detail': detail, 'case': self.case})
        self.count('violations_total')

    def dump(self):
        return {'counters': dict(self.counters), 'outcomes': dict(self.outcomes), 'observations': dict(self.observations),
                'samples': self.samples, 'digests': sorted(self.digests), 'violations': self.violations,
                'findings': self.findings, 'flags': self.flags, 'wall': time.time() - self.t0}


def load_prop(prop):
    return importlib.import_module('vf.props.%s' % prop)


def run_cases(ctx, mod, budget=None):
    """execute this shard's share of the case list; unexpected harness exceptions become violations of kind 'harness-exception'
    only when the module says exceptions are judged; otherwise they are recorded as inconclusive crashes."""
    ctx.mod = mod
    cases = mod.cases(ctx.tier, ctx.seed)
    ctx.count('cases_total_all_shards', 0)
    n = 0
    for i, desc in enumerate(cases):
        if i % ctx.nshards != ctx.shard:
            continue
        if budget is not None and time.time() - ctx.t0 > budget:
            ctx.count('cases_skipped_budget')
            continue
        ctx.case = desc
        try:
            mod.run_case(ctx, desc)
            ctx.count('cases_run')
        except Exception as e:
            tb = traceback.extract_tb(e.__traceback__)
            in_pgpy = any(os.sep + 'pgpy' + os.sep in f.filename for f in tb)
            if in_pgpy:
                # the code under test raised where the harness expected success
                where = next((f for f in reversed(tb) if os.sep + 'pgpy' + os.sep in f.filename), None)
                ctx.fail('unexpected-exception', {'type': type(e).__name__, 'msg': str(e)[:300],
                                                  'where': '%s:%s' % (os.path.basename(where.filename), where.name) if where else None,
                                                  'tb': traceback.format_exc()[-1200:]})
                ctx.count('cases_run')
            elif type(e).__name__ in ('Malformed', 'NotGrammatical') and type(e).__module__.startswith('vf.ref'):
                # the independent parser could not read octets that the workload expected to be well-formed (every place where it is
                # applied to deliberately damaged input handles this exception itself): what PGPy wrote is not a packet sequence
                ctx.fail('octets-unreadable-for-the-reference-parser', {'error': '%s: %s' % (type(e).__name__, str(e)[:200]), 'tb': traceback.format_exc()[-1200:]})
                ctx.count('cases_run')
            else:
                ctx.count('case_crashes')
                ctx.flags.setdefault('crashes', [])
                if len(ctx.flags['crashes']) < 5:
                    ctx.flags['crashes'].append({'case': desc, 'error': repr(e), 'tb': traceback.format_exc()[-1500:]})
        n += 1
    ctx.case = None
    # W0: in the thorough tier the repository's own test-suite is run once under the always-on monitors (vf/w0plugin.py)
    # and this property's monitor is accounted here (shard 0 only)
    if ctx.tier == 'thorough' and ctx.shard == 0 and getattr(mod, 'W0_COUNTER', None) and not os.environ.get('VERIF_NO_W0'):
        ctx.case = {'w0': 'repository test-suite under the %s monitor' % ctx.prop}
        try:
            from . import w0
            w0.feed(ctx, ctx.prop, mod.W0_COUNTER)
        except Exception as e:
            ctx.observe('w0_run_failed:' + type(e).__name__)
        ctx.case = None
    if hasattr(mod, 'finish'):
        mod.finish(ctx)
    ctx.flags['ncases_all'] = len(cases)


def load_known():
    p = os.path.join(VERIF, 'known_findings.json')
    if not os.path.exists(p):
        return {}
    out = {}
    for f in json.load(open(p)).get('findings', []):
        out[(f['property'], f['mechanism'])] = f
    return out


def validate_evidence(ev):
    """jsonschema when importable, else the required-keys rules of EVIDENCE.schema.json"""
    try:
        import jsonschema
        schema = json.load(open('/root/.vp/EVIDENCE.schema.json'))
        jsonschema.validate(ev, schema)
        return None
    except ImportError:
        pass
    except FileNotFoundError:
        pass
    except Exception as e:
        return 'schema: %s' % str(e)[:300]
    for k in ('property_id', 'tier', 'seed', 'level', 'coverage', 'wall_s'):
        if k not in ev:
            return 'missing %s' % k
    c = ev['coverage']
    if ev['level'] in ('exploration', 'fault_enumeration'):
        if not (isinstance(c.get('evaluations'), int) and c['evaluations'] >= 1):
            return 'evaluations'
        if not (isinstance(c.get('distinct_nontrivial'), int) and c['distinct_nontrivial'] >= 2):
            return 'distinct_nontrivial'
        if not isinstance(c.get('rule'), str) or not c.get('samples'):
            return 'rule/samples'
    return None


class Stalled(Exception):
    """raised inside the code under test by the per-operation alarm: the operation did not finish in its time limit"""


class time_limit(object):
    """SIGALRM watchdog for one operation of the code under test (pure-Python loops are interruptible).
    A stall is an outcome of its own -- callers count it; it is never silently folded into held or violated."""

    def __init__(self, seconds):
        self.seconds = seconds

    def _fire(self, signum, frame):
        raise Stalled('operation exceeded %ss' % self.seconds)

    def __enter__(self):
        import signal
        self._old = signal.signal(signal.SIGALRM, self._fire)
        signal.setitimer(signal.ITIMER_REAL, self.seconds)
        return self

    def __exit__(self, *a):
        import signal
        signal.setitimer(signal.ITIMER_REAL, 0)
        signal.signal(signal.SIGALRM, self._old)
        return False
