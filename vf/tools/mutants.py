"""Self-validation of the monitors (development aid, not a registered check): applies one property-breaking edit at a time to a
scratch copy of /repo (outside /repo and /verif, removed afterwards) and runs the property's quick check against it with VERIF_REPO.
usage: python -m vf.tools.mutants [Cxx ...] [--jobs N]      -> prints a kill table; exit 1 if a mutant survives."""
import json
import os
import shutil
import subprocess
import sys
import tempfile

ROOT = os.path.dirname(os.path.dirname(os.path.dirname(os.path.abspath(__file__))))

# (property, name, file, old, new)
M = [
    ('C01', 'drop-0xb4-prefix', 'pgpy/pgp.py', "                _data += b'\\xb4'\n", "                pass\n"),
    ('C01', 'trailer-without-length', 'pgpy/pgp.py', "        _data += self.int_to_bytes(hlen, 4)\n        return bytes(_data)", "        return bytes(_data)"),
    ('C01', 'subkey-revocation-skips-primary', 'pgpy/pgp.py', "                _s = subject.parent.hashdata\n                _data += b'\\x99' + self.int_to_bytes(len(_s), 2) + _s\n", "                pass\n"),
    ('C01', 'hash-alg-octet-not-hashed', 'pgpy/pgp.py', "        hcontext.append(self.hash_algorithm)\n", "        hcontext.append(0)\n"),
    ('C01', 'rsa-verify-true-on-invalid', 'pgpy/packet/fields.py', "            self.__pubkey__().verify(sigbytes, subj, padding.PKCS1v15(), hash_alg)\n        except InvalidSignature:\n            return False", "            self.__pubkey__().verify(sigbytes, subj, padding.PKCS1v15(), hash_alg)\n        except InvalidSignature:\n            return True"),
    ('C01', 'eddsa-verify-true-on-invalid', 'pgpy/packet/fields.py', "            self.__pubkey__().verify(sigbytes, subj)\n        except InvalidSignature:\n            return False", "            self.__pubkey__().verify(sigbytes, subj)\n        except InvalidSignature:\n            return True"),
    ('C01', 'timestamp-check-removed', 'pgpy/pgp.py', "                elif sig.type in {SignatureType.Standalone, SignatureType.Timestamp} and subj is not None:", "                elif False:"),
    ('C02', 'attestation-not-hashed-c02', 'pgpy/pgp.py', "SignatureType.Positive_Cert, SignatureType.Attestation, SignatureType.CertRevocation}:", "SignatureType.Positive_Cert, SignatureType.CertRevocation}:"),
    ('C01', 'attestation-not-hashed', 'pgpy/pgp.py', "SignatureType.Positive_Cert, SignatureType.Attestation, SignatureType.CertRevocation}:", "SignatureType.Positive_Cert, SignatureType.CertRevocation}:"),
    ('C02', 'hashed-area-without-length', 'pgpy/pgp.py', "        hcontext += self._signature.subpackets.__hashbytearray__()\n", "        hcontext += self._signature.subpackets.__hashbytearray__()[2:]\n"),
    ('C02', 'hash2-wrong-offset', 'pgpy/pgp.py', "bytearray(h2.digest()[:2])", "bytearray(h2.digest()[1:3])"),
    ('C02', 'eddsa-little-endian', 'pgpy/packet/fields.py', "        return self.int_to_bytes(self.r, siglen) + self.int_to_bytes(self.s, siglen)", "        return self.int_to_bytes(self.r, siglen, 'little') + self.int_to_bytes(self.s, siglen, 'little')"),
    ('C02', 'eddsa-little-endian-both-sides', 'pgpy/packet/fields.py', ["        return self.int_to_bytes(self.r, siglen) + self.int_to_bytes(self.s, siglen)", "        self.r = MPI(self.bytes_to_int(sig[:split]))\n        self.s = MPI(self.bytes_to_int(sig[split:]))"], ["        return self.int_to_bytes(self.r, siglen, 'little') + self.int_to_bytes(self.s, siglen, 'little')", "        self.r = MPI(self.bytes_to_int(sig[:split], 'little'))\n        self.s = MPI(self.bytes_to_int(sig[split:], 'little'))"]),
    ('C02', 'text-sig-canonical-lf', 'pgpy/pgp.py', "            _data += re.subn(br'\\r?\\n', b'\\r\\n', subject)[0]", "            _data += re.subn(br'\\r?\\n', b'\\n', subject)[0]"),
    ('C03', 'checksum-mod-256', 'pgpy/packet/packets.py', ["        if not sum(symkey) % 65536 == checksum:", "        m += self.int_to_bytes(sum(bytearray(symkey)) % 65536, 2)"], ["        if not sum(symkey) % 256 == checksum:", "        m += self.int_to_bytes(sum(bytearray(symkey)) % 256, 2)"]),
    ('C03', 'kdf-without-anonymous-sender-pad', 'pgpy/packet/fields.py', "        data += b'Anonymous Sender    '\n", "        data += b'Anonymous Sender'\n"),
    ('C03', 'prefix-repeat-wrong-octets', 'pgpy/packet/packets.py', ["        data = iv + iv[-2:] + data\n", "        if not constant_time.bytes_eq(iv[-2:], ivl2):\n            raise PGPDecryptionError(\"Decryption failed\")  # pragma: no cover\n\n        return pt"], ["        data = iv + iv[-3:-1] + data\n", "        if not constant_time.bytes_eq(iv[-3:-1], ivl2):\n            raise PGPDecryptionError(\"Decryption failed\")  # pragma: no cover\n\n        return pt"]),
    ('C03', 'mdc-without-d314-both-sides', 'pgpy/packet/packets.py', ["hashlib.new('SHA1', data + b'\\xd3\\x14').digest()", "        _expected_mdcbytes = b'\\xd3\\x14' + hashlib.new('SHA1', pt[:-20]).digest()"], ["hashlib.new('SHA1', data).digest()", "        _expected_mdcbytes = b'\\xd3\\x14' + hashlib.new('SHA1', pt[:-22]).digest()"]),
    ('C03', 'zip-with-zlib-header', 'pgpy/constants.py', ["            return zlib.compress(data)[2:-4]", "            return zlib.decompress(data, -15)"], ["            return zlib.compress(data)", "            return zlib.decompress(data)"]),
    ('C04', 'mdc-compare-inverted', 'pgpy/packet/packets.py', "        if not constant_time.bytes_eq(bytes(pt[-22:]), _expected_mdcbytes):", "        if False:"),
    ('C04', 'mdc-only-packet-header-compared', 'pgpy/packet/packets.py', "        if not constant_time.bytes_eq(bytes(pt[-22:]), _expected_mdcbytes):", "        if not constant_time.bytes_eq(bytes(pt[-22:-20]), _expected_mdcbytes[:2]):"),
    ('C04', 'decrypt-catch-all-returns-garbage', 'pgpy/pgp.py', "        decmsg = PGPMessage()\n        decmsg.parse(message.message.decrypt(key, alg))\n\n        return decmsg", "        decmsg = PGPMessage()\n        try:\n            decmsg.parse(message.message.decrypt(key, alg))\n        except Exception:\n            decmsg = PGPMessage.new(bytes(message.message.ct[:12]), format='b', compression=CompressionAlgorithm.Uncompressed)\n\n        return decmsg"),
    ('C04', 'wrong-passphrase-falls-back-to-zero-key', 'pgpy/pgp.py', "        else:\n            raise PGPDecryptionError(\"Decryption failed\")\n\n        return decmsg", "        else:\n            return self\n\n        return decmsg"),
    ('C04', 'EQUIVALENT-quick-check-deleted', 'pgpy/packet/packets.py', "        if not constant_time.bytes_eq(iv[-2:], ivl2):\n            raise PGPDecryptionError(\"Decryption failed\")  # pragma: no cover\n\n        return pt", "        return pt"),
    ('C04', 'EQUIVALENT-pkesk-checksum-dropped', 'pgpy/packet/packets.py', "        if not sum(symkey) % 65536 == checksum:  # pragma: no cover", "        if False:"),
    ('C04', 'EQUIVALENT-mdc-first-10-octets-only', 'pgpy/packet/packets.py', "        if not constant_time.bytes_eq(bytes(pt[-22:]), _expected_mdcbytes):", "        if not constant_time.bytes_eq(bytes(pt[-22:-10]), _expected_mdcbytes[:12]):"),
    ('C05', 'raw-retention-off', 'pgpy/packet/fields.py', "        if self._hashed_raw is not None:\n            current", "        if False:\n            current"),
    ('C14', 'boolean-typo-back', 'pgpy/packet/subpackets/signature.py', "        self.bflag = bool(self.bytes_to_int(val))", "        self.bool = bool(self.bytes_to_int(val))"),
    ('C05', 'hash-unhashed-length-too', 'pgpy/pgp.py', "        hcontext += self._signature.subpackets.__hashbytearray__()\n", "        hcontext += self._signature.subpackets.__hashbytearray__() + self._signature.subpackets.__unhashbytearray__()[:2]\n"),
    ('C06', 'unlock-finally-clear-removed', 'pgpy/pgp.py', "                if sk.is_protected:\n                    sk._key.keymaterial.clear()\n", "                pass\n"),
    ('C06', 'clear-only-primary', 'pgpy/pgp.py', "                if sk.is_protected:\n                    sk._key.keymaterial.clear()\n", "                if sk.is_protected and sk is self:\n                    sk._key.keymaterial.clear()\n"),
    ('C06', 'sha1-check-skipped', 'pgpy/packet/fields.py', "        if self.s2k.usage == 254 and not pt[-20:] == hashlib.new('sha1', pt[:-20]).digest():", "        if False:"),
    ('C06', 'encrypt-keyblob-forgets-clear', 'pgpy/packet/fields.py', "        del pt\n        self.clear()\n", "        del pt\n"),
    ('C13', 'protect-iv-zero', 'pgpy/packet/fields.py', "        self.s2k.iv = enc_alg.gen_iv()\n", "        self.s2k.iv = bytearray(enc_alg.block_size // 8)\n"),
    ('C09', 'newlen-191-boundary', 'pgpy/types.py', "            if 192 > nl:\n                return Header.int_to_bytes(nl)", "            if 191 > nl:\n                return Header.int_to_bytes(nl)"),
    ('C09', 'two-octet-decode-without-192', 'pgpy/types.py', "return (((dlen - (192 << 8)) & 0xFF00) + ((dlen & 0xFF) + 192), 2, False)", "return (((dlen - (192 << 8)) & 0xFF00) + ((dlen & 0xFF)), 2, False)"),
    ('C09', 's2k-count-bias', 'pgpy/packet/fields.py', "        return (16 + (self._count & 15)) << ((self._count >> 4) + 6)", "        return (16 + (self._count & 15)) << ((self._count >> 4) + 5)"),
    ('C09', 'mpi-bits-from-bytes', 'pgpy/packet/types.py', "        return MPIs.int_to_bytes(self.bit_length(), 2) +", "        return MPIs.int_to_bytes(self.byte_length() * 8, 2) +"),
    ('C10', 'crc-init-off', 'pgpy/types.py', "    __crc24_init = 0x0B704CE", "    __crc24_init = 0x0B704CF"),
    ('C10', 'wrap-77', 'pgpy/types.py', "payload[i:(i + 64)] for i in range(0, len(payload), 64)", "payload[i:(i + 77)] for i in range(0, len(payload), 77)"),
    ('C10', 'crc-warning-inverted', 'pgpy/types.py', "            if Armorable.crc24(m['body']) != m['crc']:", "            if Armorable.crc24(m['body']) == m['crc']:"),
    ('C10', 'signature-magic-check-dropped', 'pgpy/pgp.py', "        if unarmored['magic'] is not None and unarmored['magic'] != 'SIGNATURE':", "        if False:"),
    ('C12', 'preload-i-plus-1', 'pgpy/packet/fields.py', "            _h.update(b'\\x00' * i)\n", "            _h.update(b'\\x00' * (i + 1))\n"),
    ('C12', 'count-compare-ge', 'pgpy/packet/fields.py', "if self.specifier == String2KeyType.Iterated and self.count > len(hsalt + hpass):", "if self.specifier == String2KeyType.Iterated and self.count > 2 * len(hsalt + hpass):"),
    ('C13', 'gen-key-constant', 'pgpy/constants.py', "        return os.urandom(self.key_size // 8)", "        return b'\\x00' * (self.key_size // 8)"),
    ('C13', 'salt-from-passphrase', 'pgpy/packet/packets.py', "        self.s2k.salt = bytearray(os.urandom(8))", "        self.s2k.salt = bytearray(hashlib.sha1(passphrase.encode() if isinstance(passphrase, str) else passphrase).digest()[:8])"),
    ('C13', 'prefix-from-message', 'pgpy/packet/packets.py', "        iv = alg.gen_iv()\n        data = iv + iv[-2:] + data", "        iv = hashlib.sha256(data).digest()[:alg.block_size // 8]\n        data = iv + iv[-2:] + data"),
    ('C13', 'session-key-cached', 'pgpy/pgp.py', "        if sessionkey is None:\n            sessionkey = cipher_algo.gen_key()\n\n        elif len(sessionkey) != cipher_algo.key_size // 8:\n            raise ValueError(\"session key must be {:d} octets long for {:s}\".format(cipher_algo.key_size // 8, cipher_algo.name))\n\n        # set up a new PKESessionKeyV3", "        if sessionkey is None:\n            sessionkey = PGPKey.__dict__.setdefault('_cache', {}).setdefault(cipher_algo, cipher_algo.gen_key()) if False else _SK.setdefault(cipher_algo, cipher_algo.gen_key())\n\n        # set up a new PKESessionKeyV3"),
    ('C17', 'expired-dropped-from-set', 'pgpy/constants.py', "            | SecurityIssues.Expired\n", ""),
    ('C17', 'bool-any', 'pgpy/types.py', "        return all(\n            sigsub.issues is SecurityIssues.OK", "        return any(\n            sigsub.issues is SecurityIssues.OK"),
    ('C17', 'and-drops-right', 'pgpy/types.py', "        self._subjects += other._subjects\n        return self", "        return self"),
    ('C17', 'exact-equality-back', 'pgpy/constants.py', "        return bool(self & (", "        return self in (SecurityIssues.WrongSig, SecurityIssues.Expired, SecurityIssues.Disabled, SecurityIssues.Invalid, SecurityIssues.NoSelfSignature) or False and bool(self & ("),
    ('C18', 'fingerprint-from-secret-length', 'pgpy/packet/packets.py', "        plen = self.keymaterial.publen()\n", "        plen = len(self.keymaterial)\n"),
    ('C18', 'keyid-first-16', 'pgpy/types.py', "        return self[-16:]", "        return self[:16]"),
    ('C18', 'timestamp-via-mktime', 'pgpy/packet/packets.py', "        fp.update(self.int_to_bytes(calendar.timegm(self.created.utctimetuple()), 4))", "        fp.update(self.int_to_bytes(int(__import__('time').mktime(self.created.utctimetuple())) & 0xFFFFFFFF, 4))"),
    ('C19', 'alias-layer-arithmetic-back', 'pgpy/pgp.py', "            free = [m for m in self._aliases if alias not in m]\n            if not free:\n                self._aliases.appendleft({})\n                free = [self._aliases[0]]\n\n            free[0][alias] = pkid", "            adepth = len(self._aliases) - len([None for m in self._aliases if alias in m]) - 1\n            if adepth == -1:\n                self._aliases.appendleft({})\n                adepth = 0\n\n            self._aliases[adepth][alias] = pkid"),
    ('C19', 'unload-forgets-subkeys', 'pgpy/pgp.py', "            if key.is_primary:\n                [ self.unload(sk) for sk in key.subkeys.values() ]", "            pass"),
    ('C19', 'contains-without-space-stripping', 'pgpy/pgp.py', "            return alias in aliases or alias.replace(' ', '') in aliases", "            return alias in aliases"),
    ('C19', 'get-key-without-space-stripping', 'pgpy/pgp.py', "            if alias.replace(' ', '') in m:\n                return self._keys[m[alias.replace(' ', '')]]", "            pass"),
    ('C19', 'EQUIVALENT-unload-skips-resort', 'pgpy/pgp.py', "                if a in self:\n                    self._sort_alias(a)", "                pass"),
    ('C19', 'fingerprints-ignores-subkeys', 'pgpy/pgp.py', "        return {pk.fingerprint for pk in self._keys.values()\n                if pk.is_primary in", "        return {pk.fingerprint for pk in self._keys.values() if pk.is_primary\n                if pk.is_primary in"),
    ('C14', 'sigs-after-subkey-attach-to-previous-uid', 'pgpy/pgp.py', "                    if pkt.header.tag != PacketTag.Signature:\n                        self.last", "                    if pkt.header.tag not in (PacketTag.Signature, PacketTag.PublicSubKey, PacketTag.SecretSubKey):\n                        self.last"),
    ('C14', 'exportable-filter-inverted-for-uid-sigs', 'pgpy/pgp.py', "            for s in [s for s in uid._signatures if s.exportable]:", "            for s in [s for s in uid._signatures if not s.exportable or s.signer == self.fingerprint.keyid]:"),
    ('C14', 'copy-skips-direct-signatures', 'pgpy/pgp.py', "            if sig.embedded:\n                # embedded signatures don't need to be explicitly copied\n                continue\n", "            if sig.embedded or sig.type == SignatureType.DirectlyOnKey:\n                continue\n"),
    ('C14', 'insort-replaces-equal', 'pgpy/types.py', "        i = bisect.bisect_left(self, item)\n        self.rotate(- i)\n        self.appendleft(item)", "        i = bisect.bisect_left(self, item)\n        if i < len(self) and not (item < self[i]):\n            self[i] = item\n            return\n        self.rotate(- i)\n        self.appendleft(item)"),
    ('C14', 'uid-copy-forward-order', 'pgpy/pgp.py', "        for sig in reversed(self._signatures):\n            uid |= copy.copy(sig)", "        for sig in self._signatures:\n            uid |= copy.copy(sig)"),
    ('C14', 'uid-copy-drops-third-party-sigs', 'pgpy/pgp.py', "        for sig in reversed(self._signatures):\n            uid |= copy.copy(sig)\n        return uid", "        for sig in reversed(self._signatures):\n            if self.parent is None or sig.signer == self.parent.fingerprint.keyid:\n                uid |= copy.copy(sig)\n        return uid"),
    ('C16', 'flags-subset-instead-of-intersection', 'pgpy/decorators.py', "                if self.flags & set(_key._get_key_flags(user)):", "                if self.flags <= set(_key._get_key_flags(user)):"),
    ('C16', 'subkey-used-but-primary-id-written', 'pgpy/pgp.py', "        sig = PGPSignature.new(sig_type, self.key_algorithm, hash_algo, self.fingerprint.keyid, created=prefs.pop('created', None))\n\n        return self._sign(subject, sig, **prefs)", "        sig = PGPSignature.new(sig_type, self.key_algorithm, hash_algo, (self.parent or self).fingerprint.keyid, created=prefs.pop('created', None))\n\n        return self._sign(subject, sig, **prefs)"),
    ('C16', 'decrypt-without-unlocked-condition', 'pgpy/pgp.py', "    @KeyAction(is_unlocked=True, is_public=False)\n    def decrypt(self, message):", "    @KeyAction(is_public=False)\n    def decrypt(self, message):"),
    ('C16', 'sign-without-public-condition', 'pgpy/pgp.py', "    @KeyAction(KeyFlags.Sign, is_unlocked=True, is_public=False)", "    @KeyAction(KeyFlags.Sign, is_unlocked=True)"),
    ('C16', 'oldest-binding-back', 'pgpy/pgp.py', "        return list(self.self_signatures)[-1].key_flags", "        return next(self.self_signatures).key_flags"),
    ('C16', 'subkey-preconditions-not-checked', 'pgpy/decorators.py', "                if _key is not key:", "                if False:"),
    ('C16', 'pkesk-names-primary', 'pgpy/pgp.py', "        pkesk.encrypter = bytearray(binascii.unhexlify(self.fingerprint.keyid.encode('latin-1')))", "        pkesk.encrypter = bytearray(binascii.unhexlify((self.parent or self).fingerprint.keyid.encode('latin-1')))"),
    ('C20', 'onepass-order-not-reversed', 'pgpy/pgp.py', "            for sig in reversed(self._signatures):\n                ops = sig.make_onepass()", "            for sig in self._signatures:\n                ops = sig.make_onepass()"),
    ('C20', 'compress-only-the-literal', 'pgpy/pgp.py', "            comp.packets = [pkt for pkt in self]\n            comp.update_hlen()\n            return comp.__bytearray__()", "            comp.packets = [pkt for pkt in self if isinstance(pkt, LiteralData)]\n            comp.update_hlen()\n            return b''.join(bytes(p.__bytearray__()) for p in self if isinstance(p, OnePassSignature)) + comp.__bytearray__() + b''.join(bytes(p.__bytearray__()) for p in self if isinstance(p, PGPSignature))"),
    ('C20', 'onepass-hash-pubalg-swapped', 'pgpy/pgp.py', "        onepass.halg = self.hash_algorithm\n        onepass.pubalg = self.key_algorithm", "        onepass.halg = self.key_algorithm\n        onepass.pubalg = self.hash_algorithm"),
    ('C20', 'onepass-flag-inverted-back', 'pgpy/pgp.py', "                if sig is self._signatures[0]:\n                    ops.nested = True", "                if sig is not self._signatures[-1]:\n                    ops.nested = True"),
    ('C20', 'mdc-reemitted', 'pgpy/pgp.py', "            yield self._message\n\n            for sig in self._signatures:", "            yield self._message\n            if self._mdc is not None:\n                yield self._mdc\n\n            for sig in self._signatures:"),
    ('C20', 'bz2-truncates-64k', 'pgpy/constants.py', "            return bz2.compress(data)", "            return bz2.compress(data[:65536])"),
    ('C20', 'onepass-wrong-issuer', 'pgpy/pgp.py', "        onepass.signer = self.signer\n", "        onepass.signer = self.signer[::-1]\n"),
    ('C20', 'literal-format-always-binary', 'pgpy/pgp.py', "            lit.format = format\n", "            lit.format = 'b'\n"),
    ('C11', 'dash-escape-only-when-not-followed-by-space', 'pgpy/pgp.py', "        return re.subn(r'^-', '- -', text, flags=re.MULTILINE)[0]", "        return re.subn(r'^-(?! )', '- -', text, flags=re.MULTILINE)[0]"),
    ('C11', 'unescape-global-replace', 'pgpy/pgp.py', "        return re.subn(r'^- ', '', text, flags=re.MULTILINE)[0]", "        return text.replace('- ', '')"),
    ('C11', 'canonicalise-to-lf-both-sides', 'pgpy/pgp.py', "            _data += re.subn(br'\\r?\\n', b'\\r\\n', subject)[0]", "            _data += re.subn(br'\\r?\\n', b'\\n', subject)[0]"),
    ('C11', 'hash-header-dropped', 'pgpy/pgp.py', "            hhdr = 'Hash: {hashes:s}\\n'.format(hashes=','.join(sorted(hashes))) if hashes else ''", "            hhdr = ''"),
    ('C11', 'trailing-blanks-signed-again', 'pgpy/pgp.py', "        if self.type != 'cleartext':\n            return self.message\n", "        if True:\n            return self.message\n"),
    ('C11', 'crlf-normalisation-removed', 'pgpy/pgp.py', "            cleartext = unarmored['cleartext'].replace('\\r\\n', '\\n')\n            if cleartext.endswith('\\r'):\n                cleartext = cleartext[:-1]", "            cleartext = unarmored['cleartext']"),
    ('C11', 'text-signature-type-binary', 'pgpy/pgp.py', "                sig_type = SignatureType.CanonicalDocument\n", "                pass\n"),
    ('C15', 'selfsig-oldest-first', 'pgpy/pgp.py', "            for sig in reversed(self._signatures):\n                if sig.signer_fingerprint:", "            for sig in self._signatures:\n                if sig.signer_fingerprint:"),
    ('C15', 'del-uid-leaves-uid', 'pgpy/pgp.py', "        u._parent = None\n        self._uids.remove(u)", "        u._parent = None"),
    ('C15', 'bind-omits-cross-signature', 'pgpy/pgp.py', "                sig._signature.subpackets.addnew('EmbeddedSignature', hashed=False, _sig=crosssig._signature)", "                pass"),
    ('C15', 'expires-at-first-uid-only', 'pgpy/pgp.py', "        for sig in iter(uid.selfsig for uid in self.userids if uid.selfsig):\n            if sig.key_expiration is not None:\n                expires = sig.key_expiration", "        for sig in iter(uid.selfsig for uid in list(self.userids)[:1] if uid.selfsig):\n            if sig.key_expiration is not None:\n                expires = timedelta(seconds=1) + sig.key_expiration"),
    ('C15', 'revocation-signatures-ignores-type', 'pgpy/pgp.py', "                        if all([sig.type == keytype, sig.signer == keyid, not sig.is_expired])):\n            yield sig\n\n    @property\n    def subkeys", "                        if all([sig.signer == keyid, not sig.is_expired])):\n            yield sig\n\n    @property\n    def subkeys"),
    ('C15', 'revoke-uid-signs-wrong-uid', 'pgpy/pgp.py', "        return self._sign(target, sig, **prefs)", "        return self._sign(target if not isinstance(target, PGPUID) else next(iter(self.userids)), sig, **prefs)"),
    ('C15', 'primary-flag-inverted', 'pgpy/packet/subpackets/signature.py', "        _bytes += self.int_to_bytes(int(self.primary))", "        _bytes += self.int_to_bytes(int(not self.primary))"),
    ('C15', 'add-subkey-binds-with-wrong-primary', 'pgpy/pgp.py', "            if subject.is_primary:\n                _s = subject.subkeys[self.signer].hashdata\n\n            else:\n                _s = subject.hashdata", "            if subject.is_primary:\n                _s = subject.subkeys[self.signer].hashdata\n\n            else:\n                _s = subject.hashdata if self.type != SignatureType.PrimaryKey_Binding else subject._parent.hashdata"),
    ('C02', 'message-signature-over-decoded-text-back', 'pgpy/pgp.py', "            return bytes(self._message._contents)\n", "            return self.message\n"),
    ('C14', 'exportable-read-from-unsigned-area-back', 'pgpy/pgp.py', "        if self._signature.subpackets['h_ExportableCertification']:\n            return bool(next(iter(self._signature.subpackets['h_ExportableCertification'])))", "        if 'ExportableCertification' in self._signature.subpackets:\n            return bool(next(iter(self._signature.subpackets['ExportableCertification'])))"),
    ('C17', 'key-expiration-read-from-unsigned-area-back', 'pgpy/pgp.py', "        if self._signature.subpackets['h_KeyExpirationTime']:\n            return next(iter(self._signature.subpackets['h_KeyExpirationTime'])).expires", "        if 'KeyExpirationTime' in self._signature.subpackets:\n            return next(iter(self._signature.subpackets['KeyExpirationTime'])).expires"),
    ('C16', 'preference-presence-in-any-area-back', 'pgpy/pgp.py', "        if self._signature.subpackets['h_PreferredHashAlgorithms']:", "        if 'PreferredHashAlgorithms' in self._signature.subpackets:"),
    ('C04', 'session-key-packets-without-data-handed-back', 'pgpy/pgp.py', "            if len(message._sessionkeys) > 0:\n", "            if False:\n"),
    ('C10', 'armor-header-keeps-cr-back', 'pgpy/types.py', "(?P<value>.+?)\\r?$", "(?P<value>.+)$"),
    ('C10', 'armor-header-greedy-key-back', 'pgpy/types.py', "'^(?P<key>.+?): ", "'^(?P<key>.+): "),
    ('C12', 'salt-remembered-from-first-derivation', 'pgpy/packet/fields.py', "            hsalt = bytes(self.salt)\n", "            hsalt = self.__dict__.setdefault('_salt_seen', bytes(self.salt))\n"),
    ('C16', 'key-flags-cached-on-first-use', 'pgpy/pgp.py', "            return {KeyFlags.Certify} | (user.selfsig.key_flags if user.selfsig else set())", "            return self.__dict__.setdefault('_flagcache', {KeyFlags.Certify} | (user.selfsig.key_flags if user.selfsig else set()))"),
    ('C16', 'enforcement-off-last-subkey-back', 'pgpy/decorators.py', "                    _key = key\n", "                    pass\n"),
    ('C03', 'ecdh-ciphertext-copy-back', 'pgpy/packet/fields.py', "        ct.c = self.c[:]\n", "        pass\n"),
    ('C03', 'encrypted-data-copy-header-back', 'pgpy/packet/packets.py', "        skd.header = copy.copy(self.header)\n", ""),
    ('C19', 'keyring-drops-second-half-in-one-blob', 'pgpy/pgp.py', "        [ keys.pop((getattr(self, 'fingerprint.keyid', '~'), None), t) for t in (True, False) ]", "        [ keys.pop((getattr(self.fingerprint, 'keyid', '~'), t), None) for t in (True, False) ]"),
    ('C14', 'import-drops-identity-without-signature', 'pgpy/pgp.py', "                    # parent is likely the most recently parsed primary key\n                    keys[next(reversed(keys))] |= pgpobj\n", "                    if len(pgpobj._signatures):\n                        keys[next(reversed(keys))] |= pgpobj\n"),
    ('C13', 'second-passphrase-reuses-salt', 'pgpy/packet/packets.py', "        self.s2k.salt = bytearray(os.urandom(8))", "        self.s2k.salt = SKESessionKeyV4.__dict__.get('_last') or bytearray(os.urandom(8))\n        SKESessionKeyV4._last = self.s2k.salt"),
]


def apply(root, m):
    prop, name, path, old, new = m
    p = os.path.join(root, path)
    s = open(p).read()
    olds = old if isinstance(old, list) else [old]
    news = new if isinstance(new, list) else [new]
    for o, n in zip(olds, news):
        if o not in s:
            return False
        s = s.replace(o, n)
    if name == 'encrypt-to-first-subkey-regardless-of-flags':
        s = s.replace("from .errors import PGPError", "from .errors import PGPError\nfrom .constants import KeyFlags as _KF\nKeyFlags_Enc = {_KF.EncryptCommunications, _KF.EncryptStorage}", 1)
    if name == 'expires-at-first-uid-only':
        s = s.replace('from datetime import datetime, timezone', 'from datetime import datetime, timezone, timedelta', 1)
    if name == 'session-key-cached':
        s = s.replace("__all__ = ['PGPSignature',", "_SK = {}\n__all__ = ['PGPSignature',", 1)
    open(p, 'w').write(s)
    return True


def main(argv):
    props = [a for a in argv if a.startswith('C')]
    tier = 'quick'
    results = []
    only = [a[2:] for a in argv if a.startswith('-k')]
    todo = [m for m in M if (not props or m[0] in props) and (not only or any(o in m[1] for o in only)) and ('EQUIVALENT' not in m[1] or '--all' in argv)]
    for m in todo:
        scratch = tempfile.mkdtemp(prefix='vfmut')
        try:
            root = os.path.join(scratch, 'repo')
            shutil.copytree('/repo', root, ignore=shutil.ignore_patterns('.git', '__pycache__', '*.pyc', '.pytest_cache'))
            if not apply(root, m):
                results.append((m[0], m[1], 'PATCH-DOES-NOT-APPLY', ''))
                continue
            env = dict(os.environ, VERIF_REPO=root, VERIF_EVIDENCE_DIR=os.path.join(scratch, 'ev'), VERIF_REPLAY_DIR=os.path.join(scratch, 'rp'))
            r = subprocess.run([os.path.join(ROOT, 'check'), m[0], tier], cwd=ROOT, env=env, capture_output=True, text=True, timeout=1500)
            kinds = [l.strip()[:110] for l in r.stdout.splitlines() if l.strip().startswith('kind=')]
            verdict = {0: 'SURVIVED', 1: 'killed', 2: 'inconclusive'}.get(r.returncode, 'exit %d' % r.returncode)
            results.append((m[0], m[1], verdict, kinds[0] if kinds else r.stdout.strip().splitlines()[-1][:110] if r.stdout.strip() else ''))
            print('%-4s %-40s %-12s %s' % results[-1])
            sys.stdout.flush()
        finally:
            shutil.rmtree(scratch, ignore_errors=True)
    # evidence files were rewritten by mutant runs: the caller re-runs the real checks afterwards
    surv = [r for r in results if r[2] not in ('killed',)]
    # a partial run updates its own rows and keeps the others
    path = os.path.join(ROOT, 'mutants_last.json')
    prev = {(r[0], r[1]): r for r in (json.load(open(path)) if os.path.exists(path) else [])}
    prev.update({(r[0], r[1]): list(r) for r in results})
    order = {(m[0], m[1]): i for i, m in enumerate(M)}
    json.dump([list(prev[k]) for k in sorted(prev, key=lambda k: order.get(k, 10 ** 6)) if k in order], open(path, 'w'), indent=1)
    print('%d mutants, %d killed, %d not killed' % (len(results), len(results) - len(surv), len(surv)))
    return 1 if surv else 0


if __name__ == '__main__':
    sys.exit(main(sys.argv[1:]))
