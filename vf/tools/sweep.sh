#!/bin/sh
# sweep.sh <tier> <seed...> : run every check on the current tree for each seed; prints one line per run
cd "$(dirname "$0")/../.." || exit 2
tier="$1"; shift
for seed in "$@"; do
  for p in C01 C02 C03 C04 C05 C06 C07 C08 C09 C10 C11 C12 C13 C14 C15 C16 C17 C18 C19 C20; do
    out=$(VERIF_SEED=$seed ./check $p $tier 2>&1); rc=$?
    echo "seed=$seed rc=$rc $(echo "$out" | tail -n 1)"
    if [ $rc -ne 0 ]; then echo "$out" | grep -E "kind=|INCONCLUSIVE|VIOLATION" | head -5 | cut -c1-500; fi
  done
done
