"""known_findings.json: refresh the commit hashes of status=fixed entries after history edits in /repo (matched by commit subject)."""
import json, subprocess, os
p = os.path.join(os.path.dirname(os.path.dirname(os.path.dirname(os.path.abspath(__file__)))), 'known_findings.json')
d = json.load(open(p))
def git(*a):
    return subprocess.run(['git', '-C', '/repo'] + list(a), capture_output=True, text=True).stdout.strip()
log = dict((l.split(' ', 1)[1], l.split(' ', 1)[0]) for l in git('log', '--format=%h %s').splitlines())
for f in d['findings']:
    if f.get('status') != 'fixed':
        continue
    subj = f.get('commit_subject') or git('log', '-1', '--format=%s', f.get('commit', 'x'))
    if subj and subj in log:
        if log[subj] != f.get('commit'):
            f['what'] = f['what'].replace(f.get('commit', '\0'), log[subj])
        f['commit'] = log[subj]
        f['commit_subject'] = subj
    else:
        print('UNRESOLVED', f['property'], f['mechanism'], f.get('commit'), subj[:60] if subj else None)
json.dump(d, open(p, 'w'), indent=1)
print('fixed entries:', sum(1 for f in d['findings'] if f.get('status') == 'fixed'), 'known:', sum(1 for f in d['findings'] if f.get('status') == 'known'))
