"""Writes the prompts given to the fresh sub-agents that write seeded changes (DESIGN.md 9.6): property text + workspace rules + a variety
requirement listing what earlier contributors did (from seeded/<id>/meta.json).  The agents see nothing else from /verif.
usage: python3 vf/tools/mkseedprompts.py <outdir> [worktree-prefix]   -> <outdir>/Cxx.txt, to be used with a scratch worktree /tmp/wu_Cxx"""
import glob, json, os, re, sys
ROOT = os.path.dirname(os.path.dirname(os.path.dirname(os.path.abspath(__file__))))
out = sys.argv[1]
os.makedirs(out, exist_ok=True)
head = open(os.path.join(ROOT, 'vf/tools/seedprompt_head.txt')).read()
tail = open(os.path.join(ROOT, 'vf/tools/seedprompt_tail.txt')).read()
for line in open(os.path.join(ROOT, 'properties.jsonl')):
    p = json.loads(line)
    pid = p['id']
    prev = []
    for d in sorted(glob.glob(os.path.join(ROOT, 'seeded', pid + '-*'))):
        m = json.load(open(os.path.join(d, 'meta.json')))
        files = sorted(set(re.findall(r'^\+\+\+ b/(\S+)', open(os.path.join(d, 'patch.diff')).read(), re.M)))
        prev.append('- one touched %s and needs this to manifest: %s' % (', '.join(files), m.get('needs_to_manifest', '?')))
    var = ''
    if prev:
        var = ('VARIETY REQUIREMENT: %d other contributors have already written seeded bugs for this property. Yours must be of a DIFFERENT kind and at a DIFFERENT site '
               'from all of them.\n' % len(prev) + '\n'.join(prev) + '\nDo not reuse those sites or those triggers. Re-read the property statement and its scope clause by clause, '
               'list for yourself which clauses and scope items the changes above already cover, then pick a clause or scope item that none of them touches and break that.\n\n')
    sub = lambda s: s.replace('{PID}', pid).replace('{TITLE}', p['title']).replace('{STATEMENT}', p['statement']).replace('{SCOPE}', p['quantifier']['text'])
    open(os.path.join(out, pid + '.txt'), 'w').write(sub(head) + var + sub(tail))
print('written to', out)
