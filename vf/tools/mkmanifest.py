"""regenerates /verif/MANIFEST.json from the property modules (LEVEL, LEVEL_TEXT, NOTE, TECHNIQUE)"""
import importlib, json, os, sys
ROOT = os.path.dirname(os.path.dirname(os.path.dirname(os.path.abspath(__file__))))
sys.path.insert(0, ROOT)
from vf import core

BASE = 'cd /repo && /venv/bin/python -m pytest -ra -q -p no:cacheprovider --timeout=900 --continue-on-collection-errors'
checks, na = [], []
for p in core.PROPS:
    path = os.path.join(ROOT, 'vf', 'props', p + '.py')
    if not os.path.exists(path):
        na.append({'property_id': p, 'reason': 'not yet implemented in this round (runtime monitoring applies; see DESIGN.md section 2)'})
        continue
    core.setup_path()
    m = importlib.import_module('vf.props.' + p)
    checks.append({
        'property_id': p,
        'quick_cmd': './check %s quick' % p,
        'thorough_cmd': './check %s thorough' % p,
        'evidence_file': '/verif/evidence/%s.json' % p,
        'replay_cmd_template': './check %s --replay {path}' % p,
        'engine': 'vf',
        'level_claimed': {'category': m.LEVEL, 'text': getattr(m, 'LEVEL_TEXT', m.RULE), 'design_ref': 'DESIGN.md section 2 (%s)' % p},
        'level_note': getattr(m, 'NOTE', '; '.join(getattr(m, 'ASSUMPTIONS', []))),
        'technique': getattr(m, 'TECHNIQUE', 'runtime monitoring: reference-model monitor over generated workloads'),
    })
man = {
    'version': 1,
    'setup_cmd': './setup.sh',
    'hooks': {'guard': 'PGPY_VERIF', 'enable': 'no source hooks: observation is done from the harness (sys.monitoring taps, interposed os.urandom, icontract invariants applied at run time); PGPY_VERIF is unused by /repo',
              'baseline_off_cmd': BASE, 'source_commits': [], 'add_only': True},
    'engines': [{'name': 'vf', 'path': '/verif/vf', 'serves_properties': [c['property_id'] for c in checks],
                 'kind_free_text': 'runtime monitoring: the real pgpy from /repo runs under generated, hostile and fault-injected workloads; oracles are an independent RFC 4880/6637 model (vf/ref), history models, invariant taps; optional GnuPG second oracle'}],
    'checks': checks,
    'notes': 'exit 0 held / exit 1 VIOLATION / exit 2 INCONCLUSIVE (a deciding monitor observed nothing). Known findings: /verif/known_findings.json.',
    'not_applicable': na,
}
json.dump(man, open(os.path.join(ROOT, 'MANIFEST.json'), 'w'), indent=1)
print('checks', len(checks), 'not_applicable', len(na))
