"""compare a junit xml of the repository test-suite with /root/.vp/BASELINE.json stable_pass"""
import json, sys
import xml.etree.ElementTree as ET

def passed(xmlpath):
    out = set()
    for tc in ET.parse(xmlpath).getroot().iter('testcase'):
        if any(ch.tag in ('failure', 'error', 'skipped') for ch in tc):
            continue
        out.add('%s::%s' % (tc.get('classname'), tc.get('name')))
    return out

if __name__ == '__main__':
    base = set(json.load(open('/root/.vp/BASELINE.json'))['stable_pass'])
    got = passed(sys.argv[1])
    missing = sorted(base - got)
    print('baseline stable_pass=%d, passed now=%d, baseline tests not passing now=%d' % (len(base), len(got), len(missing)))
    for m in missing[:20]:
        print('  MISSING', m)
    sys.exit(1 if missing else 0)
