"""One-off generator of the static raw key material pool (vf/data/keymat.json).
Uses `cryptography` directly -- no PGPy.  Test keys only; committed so that runs are deterministic and
need no RSA/DSA parameter generation."""
import json, sys, os
from cryptography.hazmat.primitives.asymmetric import rsa, dsa, ec, ed25519, x25519
from cryptography.hazmat.primitives import serialization as S

sys.path.insert(0, os.path.dirname(os.path.dirname(os.path.dirname(os.path.abspath(__file__)))))
from vf.ref.keys import OID, EC_CLS

out = {}
T0 = 1500000000


def hexint(d):
    return {k: (hex(v) if isinstance(v, int) and k not in ('alg', 'created', 'kdf_hash', 'kdf_sym') else v) for k, v in d.items()}


n = 0
for bits, cnt in ((1024, 3), (2048, 3), (3072, 1)):
    for i in range(cnt):
        pn = rsa.generate_private_key(65537, bits).private_numbers()
        p, q = pn.p, pn.q
        if p > q:
            p, q = q, p
        out['rsa%d_%d' % (bits, i)] = dict(alg=1, created=T0 + n, n=pn.public_numbers.n, e=pn.public_numbers.e, d=pn.d, p=p, q=q, u=pow(p, -1, q))
        n += 1
for bits, cnt in ((1024, 3), (2048, 3), (3072, 1)):
    params = dsa.generate_parameters(bits)
    for i in range(cnt):
        pn = params.generate_private_key().private_numbers()
        pp = pn.public_numbers.parameter_numbers
        out['dsa%d_%d' % (bits, i)] = dict(alg=17, created=T0 + n, p=pp.p, q=pp.q, g=pp.g, y=pn.public_numbers.y, x=pn.x)
        n += 1
for crv in ('p256', 'p384', 'p521', 'k256'):
    for alg, nm in ((19, 'ecdsa'), (18, 'ecdh')):
        for i in range(3 if alg == 19 else 2):
            k = ec.generate_private_key(EC_CLS[crv]())
            pt = k.public_key().public_bytes(S.Encoding.X962, S.PublicFormat.UncompressedPoint)
            d = dict(alg=alg, created=T0 + n, oid=OID[crv].hex(), point=pt.hex(), s=k.private_numbers().private_value)
            if alg == 18:
                d.update(kdf_hash={'p256': 8, 'k256': 8, 'p384': 9, 'p521': 10}[crv], kdf_sym={'p256': 7, 'k256': 7, 'p384': 8, 'p521': 9}[crv])
            out['%s_%s_%d' % (nm, crv, i)] = d
            n += 1
for i in range(4):
    k = ed25519.Ed25519PrivateKey.generate()
    seed = k.private_bytes(S.Encoding.Raw, S.PrivateFormat.Raw, S.NoEncryption())
    pt = b'\x40' + k.public_key().public_bytes(S.Encoding.Raw, S.PublicFormat.Raw)
    out['ed25519_%d' % i] = dict(alg=22, created=T0 + n, oid=OID['ed25519'].hex(), point=pt.hex(), s=int.from_bytes(seed, 'big'))
    n += 1
for i in range(3):
    k = x25519.X25519PrivateKey.generate()
    raw = k.private_bytes(S.Encoding.Raw, S.PrivateFormat.Raw, S.NoEncryption())
    pt = b'\x40' + k.public_key().public_bytes(S.Encoding.Raw, S.PublicFormat.Raw)
    out['cv25519_%d' % i] = dict(alg=18, created=T0 + n, oid=OID['cv25519'].hex(), point=pt.hex(), s=int.from_bytes(raw[::-1], 'big'), kdf_hash=8, kdf_sym=7)
    n += 1
# ElGamal (parse-only in PGPy): toy group, numbers need only be well-formed
p = dsa.generate_parameters(1024).parameter_numbers().p
out['elg1024_0'] = dict(alg=16, created=T0 + n, p=p, g=5, y=pow(5, 0x1234567890abcdef1234567890abcdef, p), x=0x1234567890abcdef1234567890abcdef)

json.dump({k: hexint(v) for k, v in out.items()}, open(os.path.join(os.path.dirname(__file__), '..', 'data', 'keymat.json'), 'w'), indent=0, sort_keys=True)
print(len(out), 'keys')
