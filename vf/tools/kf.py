"""append an entry to known_findings.json:  kf.py <prop> <mechanism> <known|fixed> <commit|-> <what...>"""
import json, sys, os
p = os.path.join(os.path.dirname(os.path.dirname(os.path.dirname(os.path.abspath(__file__)))), 'known_findings.json')
d = json.load(open(p))
prop, mech, status, commit = sys.argv[1:5]
what = ' '.join(sys.argv[5:])
e = {'property': prop, 'mechanism': mech, 'status': status}
if commit != '-':
    e['commit'] = commit
e['what'] = ('fixed: property=%s %s %s' % (prop, commit, what)) if status == 'fixed' else what
d['findings'] = [f for f in d['findings'] if not (f['property'] == prop and f['mechanism'] == mech)] + [e]
json.dump(d, open(p, 'w'), indent=1)
print('findings:', len(d['findings']))
