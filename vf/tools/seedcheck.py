"""Confirm an independently written breaking change and run the checks against it.
usage: python -m vf.tools.seedcheck <prop> <source-dir-with patch.diff/demo.py/notes.md> <seed-id> [--official] [--props C01,C02]
 1. scratch worktree of /repo HEAD (under /tmp, removed afterwards): demo must pass; apply patch; demo must fail;
    the repository's test-suite must still give the baseline pass list.
 2. run the property's quick check (and any extra ones) against the patched tree:
      default: VERIF_REPO=<scratch worktree>;   --official: `git -C /repo apply`, run, `git -C /repo checkout -- .`
 3. store patch.diff, demo.py, notes.md and meta.json under /verif/seeded/<seed-id>/."""
import json, os, shutil, subprocess, sys, tempfile, time

ROOT = os.path.dirname(os.path.dirname(os.path.dirname(os.path.abspath(__file__))))
PY = '/venv/bin/python'


def sh(cmd, cwd=None, env=None, timeout=3000):
    r = subprocess.run(cmd, cwd=cwd, env=env, shell=isinstance(cmd, str), capture_output=True, text=True, timeout=timeout)
    return r.returncode, r.stdout + r.stderr


def main(argv):
    prop, src, sid = argv[0], argv[1], argv[2]
    official = '--official' in argv
    extra = [a.split('=')[1].split(',') for a in argv if a.startswith('--props=')]
    props = [prop] + (extra[0] if extra else [])
    wt = tempfile.mkdtemp(prefix='vfseed')
    os.rmdir(wt)
    meta = {'seed_id': sid, 'property': prop, 'confirmed_at': time.strftime('%Y-%m-%dT%H:%M:%SZ', time.gmtime()), 'ran': []}
    try:
        rc, out = sh(['git', '-C', '/repo', 'worktree', 'add', '-q', '--detach', wt, 'HEAD'])
        assert rc == 0, out
        env = dict(os.environ, PYTHONPATH=wt)
        shutil.copy(os.path.join(src, 'demo.py'), os.path.join(wt, '_demo.py'))
        rc0, o0 = sh([PY, '-B', '_demo.py'], cwd=wt, env=env, timeout=600)
        meta['demo_without_change'] = {'exit': rc0, 'tail': o0.strip().splitlines()[-1][:200] if o0.strip() else ''}
        rc, out = sh(['git', 'apply', os.path.join(src, 'patch.diff')], cwd=wt)
        meta['patch_applies'] = rc == 0
        if rc != 0:
            meta['patch_error'] = out[-300:]
        rc1, o1 = sh([PY, '-B', '_demo.py'], cwd=wt, env=env, timeout=600)
        meta['demo_with_change'] = {'exit': rc1, 'tail': o1.strip().splitlines()[-1][:200] if o1.strip() else ''}
        xml = os.path.join(wt, '_junit.xml')
        rc, out = sh([PY, '-m', 'pytest', '-q', '-p', 'no:cacheprovider', '--timeout=900', '--continue-on-collection-errors', '--junitxml=' + xml], cwd=wt, env=env)
        rcb, outb = sh([PY, os.path.join(ROOT, 'vf/tools/compare_baseline.py'), xml])
        meta['suite_with_change'] = {'summary': [l for l in out.strip().splitlines() if 'passed' in l][-1][-120:] if 'passed' in out else out[-200:], 'baseline_compare': outb.strip().splitlines()[0] if outb.strip() else '', 'ok': rcb == 0}
        os.unlink(os.path.join(wt, '_demo.py'))
        os.path.exists(xml) and os.unlink(xml)
        confirmed = rc0 == 0 and rc1 != 0 and meta['patch_applies'] and rcb == 0
        meta['confirmed'] = confirmed
        # run the checks
        for p in props:
            if official:
                rc, out = sh(['git', '-C', '/repo', 'apply', os.path.join(src, 'patch.diff')])
                try:
                    rc, out = sh([os.path.join(ROOT, 'check'), p, 'quick'], cwd=ROOT, env=dict(os.environ, VERIF_EVIDENCE_DIR=os.path.join(wt, '_ev'), VERIF_REPLAY_DIR=os.path.join(wt, '_rp')))
                finally:
                    sh(['git', '-C', '/repo', 'checkout', '--', '.'])
            else:
                rc, out = sh([os.path.join(ROOT, 'check'), p, 'quick'], cwd=ROOT, env=dict(os.environ, VERIF_REPO=wt, VERIF_EVIDENCE_DIR=os.path.join(wt, '_ev'), VERIF_REPLAY_DIR=os.path.join(wt, '_rp')))
            kinds = [l.strip()[:300] for l in out.splitlines() if l.strip().startswith('kind=')]
            meta['ran'].append({'check': './check %s quick' % p, 'how': 'git -C /repo apply; run; git -C /repo checkout -- .' if official else 'VERIF_REPO=<scratch worktree with the patch>',
                                'exit': rc, 'verdict': {0: 'NOT DETECTED', 1: 'detected', 2: 'inconclusive'}.get(rc, str(rc)), 'first_kinds': kinds[:3], 'last_line': out.strip().splitlines()[-1][:200] if out.strip() else ''})
    finally:
        sh(['git', '-C', '/repo', 'worktree', 'remove', '--force', wt])
        shutil.rmtree(wt, ignore_errors=True)
    dst = os.path.join(ROOT, 'seeded', sid)
    os.makedirs(dst, exist_ok=True)
    for f in ('patch.diff', 'demo.py', 'notes.md'):
        if os.path.exists(os.path.join(src, f)):
            shutil.copy(os.path.join(src, f), os.path.join(dst, f))
    old = {}
    if os.path.exists(os.path.join(dst, 'meta.json')):
        old = json.load(open(os.path.join(dst, 'meta.json')))
    for k_ in ('needs_to_manifest', 'history'):
        if old.get(k_):
            meta[k_] = old[k_]
    json.dump(meta, open(os.path.join(dst, 'meta.json'), 'w'), indent=1)
    print(json.dumps(meta, indent=1))
    return 0


if __name__ == '__main__':
    sys.exit(main(sys.argv[1:]))
