"""Re-run every stored seeded change (seeded/<id>/patch.diff) against the checks as they are NOW.
usage: python -m vf.tools.seedregress [ids or property names ...]     (VERIF_JOBS limits the workers of each check)
For each seed whose meta.json says confirmed: scratch worktree of /repo HEAD under /tmp (removed afterwards), `git apply patch.diff`, demo.py must
fail there, `./check <property> quick` with VERIF_REPO=<worktree> must exit 1.  Nothing is applied to /repo itself.  The result is written to
seeded_regress_last.json (read by mkdesign_tables)."""
import json, os, shutil, subprocess, sys, tempfile, time

ROOT = os.path.dirname(os.path.dirname(os.path.dirname(os.path.abspath(__file__))))
PY = '/venv/bin/python'
OUT = os.environ.get('SEEDREGRESS_OUT') or os.path.join(ROOT, 'seeded_regress_last.json')     # override: several runs side by side, merged afterwards


def sh(cmd, cwd=None, env=None, timeout=3000):
    r = subprocess.run(cmd, cwd=cwd, env=env, capture_output=True, text=True, timeout=timeout)
    return r.returncode, r.stdout + r.stderr


def one(sid):
    d = os.path.join(ROOT, 'seeded', sid)
    meta = json.load(open(os.path.join(d, 'meta.json')))
    res = {'seed': sid, 'property': meta['property'], 'confirmed': bool(meta.get('confirmed'))}
    if not meta.get('confirmed'):
        res['verdict'] = 'skipped (does not break the property on the repaired tree)'
        return res
    wt = tempfile.mkdtemp(prefix='vfreg')
    os.rmdir(wt)
    try:
        rc, out = sh(['git', '-C', '/repo', 'worktree', 'add', '-q', '--detach', wt, 'HEAD'])
        assert rc == 0, out
        rc, out = sh(['git', 'apply', os.path.join(d, 'patch.diff')], cwd=wt)
        if rc != 0:
            res['verdict'] = 'patch does not apply'
            res['detail'] = out[-200:]
            return res
        shutil.copy(os.path.join(d, 'demo.py'), os.path.join(wt, '_demo.py'))
        rc1, o1 = sh([PY, '-B', '_demo.py'], cwd=wt, env=dict(os.environ, PYTHONPATH=wt), timeout=900)
        res['demo_with_change_exit'] = rc1
        os.unlink(os.path.join(wt, '_demo.py'))
        if rc1 == 0:
            # a later repair of the repository made the change harmless: its own demonstration passes with the change applied
            res['confirmed'] = False
            res['verdict'] = 'neutralised (its demo passes with the change on the repaired tree)'
            return res
        t0 = time.time()
        rc, out = sh([os.path.join(ROOT, 'check'), meta['property'], 'quick'], cwd=ROOT,
                     env=dict(os.environ, VERIF_REPO=wt, VERIF_EVIDENCE_DIR=os.path.join(wt, '_ev'), VERIF_REPLAY_DIR=os.path.join(wt, '_rp')))
        res['exit'] = rc
        res['wall'] = round(time.time() - t0, 1)
        res['verdict'] = {0: 'NOT DETECTED', 1: 'detected', 2: 'inconclusive'}.get(rc, str(rc))
        kinds = [l.strip().split(' ')[0] for l in out.splitlines() if l.strip().startswith('kind=')]
        res['first_kinds'] = kinds[:3]
        return res
    finally:
        sh(['git', '-C', '/repo', 'worktree', 'remove', '--force', wt])
        shutil.rmtree(wt, ignore_errors=True)
        sh(['git', '-C', '/repo', 'worktree', 'prune'])


def main(argv):
    ids = sorted(x for x in os.listdir(os.path.join(ROOT, 'seeded')) if os.path.exists(os.path.join(ROOT, 'seeded', x, 'meta.json')))
    if argv:
        ids = [x for x in ids if x in argv or x.split('-')[0] in argv]
    prev = {}
    if os.path.exists(OUT):
        prev = {r['seed']: r for r in json.load(open(OUT))['results']}
    for sid in ids:
        r = one(sid)
        r['at'] = time.strftime('%Y-%m-%dT%H:%M:%SZ', time.gmtime())
        prev[sid] = r
        print(sid, r['verdict'], r.get('first_kinds', '')[:2] if isinstance(r.get('first_kinds'), list) else '', flush=True)
        rs = [prev[k] for k in sorted(prev)]
        json.dump({'results': rs, 'detected': sum(1 for x in rs if x['verdict'] == 'detected'), 'confirmed': sum(1 for x in rs if x['confirmed']), 'total': len(rs)}, open(OUT, 'w'), indent=1)
    bad = [r['seed'] for r in prev.values() if r['confirmed'] and r['verdict'] != 'detected']
    print('confirmed seeds not detected now:', bad)
    return 1 if bad else 0


if __name__ == '__main__':
    sys.exit(main(sys.argv[1:]))
