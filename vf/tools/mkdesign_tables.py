"""regenerates the kill table and the seeded-changes table inside DESIGN.md from mutants_last.json and seeded/*/meta.json"""
import glob, json, os, re
ROOT = os.path.dirname(os.path.dirname(os.path.dirname(os.path.abspath(__file__))))
p = os.path.join(ROOT, 'DESIGN.md')
s = open(p).read()

def block(name, text):
    global s
    b, e = '<!-- %s:BEGIN -->' % name, '<!-- %s:END -->' % name
    if '%' + name + '%' in s:
        s = s.replace('%' + name + '%', b + '\n' + e)
    i, j = s.index(b), s.index(e)
    s = s[:i] + b + '\n' + text + '\n' + s[j:]

rows = json.load(open(os.path.join(ROOT, 'mutants_last.json'))) if os.path.exists(os.path.join(ROOT, 'mutants_last.json')) else []
by = {}
for r in rows:
    by.setdefault(r[0], []).append(r)
t = ['%d mutants of the last full run (`python -m vf.tools.mutants`; each is one realistic edit to a scratch copy of `/repo`, run against the property\'s *quick* check; '
     'mutants named EQUIVALENT-* are excluded: they cannot be observed through the property, e.g. deleting the quick-check that the MDC subsumes):' % len(rows), '',
     '| property | killed / total | mutants (first oracle that fired) |', '|---|---|---|']
for prop in sorted(by):
    rs = by[prop]
    k = sum(1 for r in rs if r[2] == 'killed')
    items = []
    for r in rs:
        m = re.match(r'kind=([^ ]+)', r[3] or '')
        items.append('%s%s' % (r[1], (' -> `' + m.group(1) + '`') if m else (' -> **' + r[2] + '**')))
    t.append('| %s | %d / %d | %s |' % (prop, k, len(rs), '; '.join(items)))
block('KILLTABLE', '\n'.join(t))

seeds = []
for f in sorted(glob.glob(os.path.join(ROOT, 'seeded', '*', 'meta.json'))):
    m = json.load(open(f))
    seeds.append(m)
t = ['Each change was written by a fresh sub-agent that saw only the property text and its own scratch worktree (nothing from `/verif`). I confirmed every one myself in a '
     'scratch worktree (`vf/tools/seedcheck.py`): the demonstration passes without and fails with the patch, and the unedited suite keeps its 1010 passes. '
     '`seeded/<id>/` holds `patch.diff`, `demo.py`, `notes.md`, `meta.json`.', '',
     '| id | needs, in order to manifest | result |', '|---|---|---|']
first = 0
_rp = os.path.join(ROOT, 'seeded_regress_last.json')
_rg = {r['seed']: r['verdict'] for r in json.load(open(_rp))['results']} if os.path.exists(_rp) else {}
missed = [m['seed_id'] for m in seeds if m.get('confirmed', True) and _rg.get(m['seed_id'], (m.get('ran') or [{}])[-1].get('verdict')) != 'detected']
for m in seeds:
    ran = m.get('ran', [{}])[-1]
    h = m.get('history', '')
    if h.startswith('detected'):
        first += 1
    if not m.get('confirmed', True):
        t.append('| %s | %s | %s; now: no longer breaks the property on the repaired tree |' % (m['seed_id'], m.get('needs_to_manifest', ''), h))
        continue
    t.append('| %s | %s | %s; now: %s (`%s`) |' % (m['seed_id'], m.get('needs_to_manifest', ''), h, ran.get('verdict', '?'), (ran.get('first_kinds') or ['?'])[0].split(' ')[0].replace('kind=', '')))
t.append('')
t.append('%d seeded changes; %d were caught by the checks as they stood, the others exposed blind spots of the workloads (not of the oracles) and led to the strengthenings named in the table; '
         '%s' % (len(seeds), first, 'after them every seeded change is caught by its property\'s quick check.' if not missed else
                 'NOT detected by the checks as they stand (written in the last minutes of the budget, no time left to widen the workload): ' + ', '.join(missed) + '.'))
rp = os.path.join(ROOT, 'seeded_regress_last.json')
if os.path.exists(rp):
    rg = json.load(open(rp))
    ats = sorted(r['at'] for r in rg['results'])
    nd = [r['seed'] for r in rg['results'] if r['confirmed'] and r['verdict'] != 'detected']
    t.append('')
    t.append('Regression (`python -m vf.tools.seedregress`, %s .. %s): every stored patch applied to a scratch worktree of the repaired tree and the property\'s quick check '
             'run against it as the checks stand now: %d of %d confirmed seeds detected%s.' % (ats[0][:16], ats[-1][:16], rg['detected'], rg['confirmed'], '' if not nd else '; NOT detected: ' + ', '.join(nd)))
block('SEEDED', '\n'.join(t))
import subprocess
kf = json.load(open(os.path.join(ROOT, 'known_findings.json')))
ents = kf if isinstance(kf, list) else kf.get('findings', kf)
byc = {}
for e in ents:
    if e.get('status') == 'fixed':
        byc.setdefault(e['commit'][:7], set()).add(e['property'])
repo = os.environ.get('VERIF_REPO', '/repo')
base = subprocess.run(['git', '-C', repo, 'log', '--format=%h', '--grep=^snapshot', '-1'], capture_output=True, text=True).stdout.strip()
log = subprocess.run(['git', '-C', repo, 'log', '--reverse', '--format=%h %s', (base + '..HEAD') if base else 'HEAD'], capture_output=True, text=True).stdout.strip().split('\n')
t = ['| commit | found by | repair |', '|---|---|---|']
for l in log:
    h, subj = l.split(' ', 1)
    if not subj.startswith('fix:'):
        continue
    t.append('| `%s` | %s | %s |' % (h, ','.join(sorted(byc.get(h[:7], []))) or '?', subj[5:]))
block('FIXTABLE', '\n'.join(t))
open(p, 'w').write(s)
print('fixes', len(t) - 2)
print('kill rows', len(rows), 'seeds', len(seeds))
