"""Shared signature workload: builds (key, subject, signature) triples of known provenance with PGPy's signing APIs and with
the reference signer, and gives both views of the subject (PGPy object for PGPKey.verify, exported octets for vf.ref.sig)."""
import warnings
from datetime import datetime, timezone, timedelta

from .ref import wire, keys as RK, sig as RS, grammar
from . import pool

JPEG = b'\xff\xd8\xff\xe0\x00\x10JFIF\x00\x01\x01\x00\x00\x01\x00\x01\x00\x00' + bytes(range(64)) + b'\xff\xd9'
T0 = datetime(2021, 5, 6, 7, 8, 9, tzinfo=timezone.utc)

KINDS = ['doc-bytes', 'doc-str', 'doc-empty', 'literal-b', 'literal-u', 'literal-t', 'cleartext', 'cleartext-blank', 'cleartext-ws', 'none', 'uid-self', 'uid-other', 'ua-self', 'ua-other',
         'key-direct-self', 'key-direct-other', 'revoke-key', 'revoke-subkey', 'revoke-uid', 'bind', 'bind-ecdh', 'bind-ecdh-kdf', 'revoke-ecdh-kdf', 'revoker', 'attest']

HASHES = {'MD5': 1, 'SHA1': 2, 'SHA224': 11, 'SHA256': 8, 'SHA384': 9, 'SHA512': 10}


class Triple(object):
    """key: PGPy public key that verifies; subject: what is handed to PGPKey.verify; sig: PGPSignature (None when carried in subject);
    refsubj: kwargs for vf.ref.sig.hash_input; signer: raw material of the component that signed"""

    def __init__(self, **kw):
        self.__dict__.update(kw)


def target_key(name='ed25519_3', with_ua=True, with_sub=True):
    """a certification target: user id + user attribute + subkey"""
    import pgpy
    ck = ('target', name, with_ua, with_sub)
    if ck in pool._CACHE:
        return pool._CACHE[ck]
    with warnings.catch_warnings():
        warnings.simplefilter('ignore')
        k = pool.pgpy_key(name, uid='Target Ünïcode 日本', email='t@example.org', sub='cv25519_2' if with_sub else None, fresh=True)
        if with_ua:
            k.add_uid(pgpy.PGPUID.new(bytearray(JPEG)))
    pool._CACHE[ck] = k
    return k


def signer_key(name):
    """signer with user id, user attribute and an own (signing-capable) subkey"""
    import pgpy
    from pgpy.constants import KeyFlags
    ck = ('signer', name)
    if ck in pool._CACHE:
        return pool._CACHE[ck]
    with warnings.catch_warnings():
        warnings.simplefilter('ignore')
        k = pool.pgpy_key(name, uid='Signer ' + name, sub='ed25519_1' if name != 'ed25519_1' else 'ed25519_2', sub_usage={KeyFlags.Sign}, fresh=True)
        k.add_uid(pgpy.PGPUID.new(bytearray(JPEG)))
        # second subkey: encryption-only (ECDH); listed after the signing subkey, so index 0 stays the signing one
        k.add_subkey(pool.pgpy_bare('cv25519_2'), usage={KeyFlags.EncryptCommunications, KeyFlags.EncryptStorage})
    pool._CACHE[ck] = k
    return k


def export_view(keyobj):
    """reference view of a PGPy key's public export: (primary pub body, [(uid tag, body)], [sub pub bodies])"""
    tk = grammar.parse_keys(wire.split(bytes(keyobj.pubkey if not keyobj.is_public else keyobj)))[0]
    prim = RK.parse_pub(tk['primary'].body)['pubbody']
    uids = [(u.tag, u.body) for u, _ in tk['uids']]
    subs = [RK.parse_pub(s.body)['pubbody'] for s, _ in tk['subkeys']]
    return prim, uids, subs


def pgpy_triple(signer, kind, hashname=None, opts=None, level=None):
    """create a signature with PGPy's API.  Returns Triple (sig is a PGPSignature; for message carriers subject carries it too)."""
    import pgpy
    from pgpy.constants import HashAlgorithm, SignatureType, CompressionAlgorithm
    opts = dict(opts or {})
    if hashname:
        opts['hash'] = getattr(HashAlgorithm, hashname)
    k = signer_key(signer)
    sm = pool.mat(signer)
    pub = k.pubkey
    prim, uids, subs = export_view(k)
    t = Triple(key=pub, priv=k, signer=sm, kind=kind, carrier='detached', keepalive=[pub])
    with warnings.catch_warnings():
        warnings.simplefilter('ignore')
        if kind == 'doc-bytes':
            doc = b'\x00\x01binary \xff\xfe document\r\nwith\nlines\r'
            t.sig, t.subject, t.refsubj = k.sign(doc, **opts), doc, {'doc': doc}
        elif kind == 'doc-str':
            doc = 'text document é日本\U0001F600\nline2\r\nline3'
            t.sig, t.subject, t.refsubj = k.sign(doc, **opts), doc, {'doc': doc.encode('utf-8')}
        elif kind == 'doc-empty':
            t.sig, t.subject, t.refsubj = k.sign(b'', **opts), b'', {'doc': b''}
        elif kind in ('literal-b', 'literal-u', 'literal-t'):
            content = b'\x00\xffbinary\r\nliteral\n' * 3 if kind == 'literal-b' else ('unicode literal é日\n' if kind == 'literal-u' else 'text literal, not ascii: éü €\r\nsecond line\n')
            m = pgpy.PGPMessage.new(content, compression=CompressionAlgorithm.Uncompressed, format=kind[-1])
            s = k.sign(m, **opts)
            m |= s
            lit = [p for p in wire.split(bytes(m)) if p.tag == 11][0]
            t.sig, t.subject, t.refsubj, t.carrier = s, m, {'doc': grammar.literal_fields(lit.body)['data']}, 'message'
        elif kind in ('cleartext', 'cleartext-blank', 'cleartext-ws'):
            # the second text begins with empty lines and has one inside (trailing blanks and final line endings are C11's subject); the third has
            # lines that end in white space OTHER than blank and tab, which is part of what is signed (RFC 4880 7.1 discounts blank and tab only)
            text = 'cleartext line\n- dashed\nlast line' if kind == 'cleartext' else '\n\nafter two empty lines\n- dashed\n\nlast line'
            if kind == 'cleartext-ws':
                text = 'no-break space at the end\u00a0\nideographic space\u3000\n- em space after a dash\u2003\nform feed\x0c\nlast line ends in a thin space\u2009'
            m = pgpy.PGPMessage.new(text, cleartext=True)
            s = k.sign(m, **opts)
            m |= s
            t.sig, t.subject, t.refsubj, t.carrier = s, m, {'doc': text.encode('utf-8')}, 'cleartext'
        elif kind == 'none':
            t.sig, t.subject, t.refsubj = k.sign(None, **opts), None, {}
        elif kind in ('uid-self', 'ua-self', 'revoke-uid'):
            want = 13 if kind != 'ua-self' else 17
            idx = [i for i, (tg, _) in enumerate(uids) if tg == want][0]
            uo = (pub.userids if want == 13 else pub.userattributes)[0]
            ko = (k.userids if want == 13 else k.userattributes)[0]
            if kind == 'revoke-uid':
                s = k.revoke(ko, **opts)
            else:
                s = k.certify(ko, level or SignatureType.Positive_Cert, **opts)
            t.sig, t.subject = s, uo
            t.refsubj = {'primary': prim, 'uid' if want == 13 else 'ua': uids[idx][1]}
        elif kind in ('uid-other', 'ua-other', 'key-direct-other'):
            tk = target_key()
            tpub = tk.pubkey
            t.keepalive.append(tpub)
            tprim, tuids, tsubs = export_view(tk)
            if kind == 'key-direct-other':
                t.sig, t.subject, t.refsubj = k.certify(tpub, **opts), tpub, {'primary': tprim}
            else:
                want = 13 if kind == 'uid-other' else 17
                idx = [i for i, (tg, _) in enumerate(tuids) if tg == want][0]
                uo = (tpub.userids if want == 13 else tpub.userattributes)[0]
                t.sig, t.subject = k.certify(uo, level or SignatureType.Generic_Cert, **opts), uo
                t.refsubj = {'primary': tprim, 'uid' if want == 13 else 'ua': tuids[idx][1]}
        elif kind == 'key-direct-self':
            t.sig, t.subject, t.refsubj = k.certify(k, **opts), pub, {'primary': prim}
        elif kind == 'revoke-key':
            t.sig, t.subject, t.refsubj = k.revoke(k, **opts), pub, {'primary': prim}
        elif kind == 'revoke-subkey':
            sk = list(k.subkeys.values())[0]
            t.sig, t.subject, t.refsubj = k.revoke(sk, **opts), list(pub.subkeys.values())[0], {'primary': prim, 'subkey': subs[0]}
        elif kind == 'bind':
            sk = list(k.subkeys.values())[0]
            t.sig, t.subject, t.refsubj = k.bind(sk, **opts), list(pub.subkeys.values())[0], {'primary': prim, 'subkey': subs[0]}
        elif kind == 'bind-ecdh':
            # the second subkey: encryption only (ECDH), its public part ends with the KDF parameters
            sk = list(k.subkeys.values())[1]
            from pgpy.constants import KeyFlags
            o2 = dict(opts)
            o2.setdefault('usage', {KeyFlags.EncryptCommunications, KeyFlags.EncryptStorage})
            t.sig, t.subject, t.refsubj = k.bind(sk, **o2), list(pub.subkeys.values())[1], {'primary': prim, 'subkey': subs[1]}
        elif kind in ('bind-ecdh-kdf', 'revoke-ecdh-kdf'):
            # an ECDH subkey whose KDF parameters are NOT the curve's defaults (legal, RFC 6637 9), bound / revoked through the SECRET key object: what is
            # signed is the subkey as it is, parameters included
            from pgpy.constants import KeyFlags
            sn = ['cv25519_1+kdf10.9', 'ecdh_p256_1+kdf10.9', 'ecdh_p384_0+kdf8.7'][len(signer) % 3]
            k2 = pool.pgpy_key(signer, uid='Signer ' + signer, sub=sn, sub_usage={KeyFlags.EncryptCommunications, KeyFlags.EncryptStorage}, fresh=True)
            sk = list(k2.subkeys.values())[0]
            spub = RK.pub_body(pool.mat(sn))
            if kind == 'bind-ecdh-kdf':
                o2 = dict(opts)
                o2.setdefault('usage', {KeyFlags.EncryptCommunications, KeyFlags.EncryptStorage})
                sg = k2.bind(sk, **o2)
            else:
                sg = k2.revoke(sk, **opts)
            t.priv, t.key = k2, k2.pubkey
            t.keepalive.append(t.key)
            t.sig, t.subject, t.refsubj = sg, list(t.key.subkeys.values())[0], {'primary': prim, 'subkey': spub}
        elif kind == 'revoker':
            other = target_key()
            t.sig, t.subject, t.refsubj = k.revoker(other.pubkey, **opts), pub, {'primary': prim}
        elif kind == 'attest':
            tk = target_key()
            third = tk.certify(k.userids[0])
            s = k.certify(k.userids[0], SignatureType.Attestation, attested_certifications=[third], **opts)
            idx = [i for i, (tg, _) in enumerate(uids) if tg == 13][0]
            t.sig, t.subject, t.refsubj = s, pub.userids[0], {'primary': prim, 'uid': uids[idx][1]}
        else:
            raise ValueError(kind)
    return t


def ref_check(sigbytes, signer_mat, refsubj, strict=True):
    """reference verdict on an exported signature packet: -> (ok, reason, parsed)"""
    pk = wire.split(sigbytes)
    if len(pk) != 1 or pk[0].tag != 2:
        return False, 'not exactly one signature packet', None
    try:
        s = RS.parse_sig(pk[0].body, strict=strict)
    except wire.Malformed as e:
        return False, 'malformed: %s' % e, None
    try:
        data = RS.hash_input(s, **refsubj)
    except (wire.Malformed, ValueError, TypeError) as e:
        return False, 'hash-input: %s' % e, s
    ok, why = RS.verify(s, signer_mat, data)
    return ok, why, s


def pgpy_verify(key, subject, sig=None):
    """-> ('true'|'false'|'error:<Type>', detail)"""
    try:
        with warnings.catch_warnings():
            warnings.simplefilter('ignore')
            sv = key.verify(subject, sig) if sig is not None else key.verify(subject)
        return ('true' if sv else 'false'), sv
    except Exception as e:
        return 'error:' + type(e).__name__, e
