"""Static raw key-material pool + helpers that turn it into PGPy key objects (through PGPy's own parser)
and into reference-encoded packets.  PGPy is imported lazily so that vf.ref stays importable without it."""
import json
import os
import warnings

from .ref import keys as RK, wire

_HERE = os.path.dirname(os.path.abspath(__file__))
_MAT = None
_INTS = ('n', 'e', 'd', 'p', 'q', 'u', 'g', 'y', 'x', 's')


def allmat():
    global _MAT
    if _MAT is None:
        raw = json.load(open(os.path.join(_HERE, 'data', 'keymat.json')))
        _MAT = {}
        for name, d in raw.items():
            k = {}
            for f, v in d.items():
                if f in _INTS:
                    k[f] = int(v, 16)
                elif f in ('oid', 'point'):
                    k[f] = bytes.fromhex(v)
                else:
                    k[f] = v
            k['name'] = name
            _MAT[name] = k
    return _MAT


def mat(name, created=None):
    """raw material; 'ecdh_p256_0+kdf10.9' = the same key with KDF hash 10 / KEK cipher 9 (legal, non-default parameters)"""
    base, _, var = name.partition('+kdf')
    base, _, alg = base.partition('+alg')       # 'rsa1024_1+alg3' = the same RSA key written under the deprecated sign-only identifier
    k = dict(allmat()[base])
    if alg:
        k['alg'] = int(alg)
        k['name'] = name
    if var:
        h, c = var.split('.')
        k['kdf_hash'], k['kdf_sym'] = int(h), int(c)
        k['name'] = name
    if created is not None:
        k['created'] = created
    return k


_ZERO = {}


def created_with_zero(name, where='keyid', start=1400000000):
    """creation time for which the key id ('keyid'), the fingerprint ('fpr') or the short id ('shortid') of this material begins with a zero octet"""
    ck = (name, where)
    if ck not in _ZERO:
        t = start
        off = {'keyid': 12, 'fpr': 0, 'shortid': 16}[where]
        while RK.fpr_of(mat(name, t))[off] != 0:
            t += 1
        _ZERO[ck] = t
    return _ZERO[ck]


def created_with_keyid(name, first=0, last=None, start=1400000000):
    """a creation time for which the key id of this material begins with octet `first` (and, if given, ends with octet `last`):
    identifiers with leading / trailing zero octets are where integer round trips and stripped prefixes show"""
    ck = (name, first, last)
    if ck not in _ZERO:
        t = start
        while True:
            kid = RK.keyid_of(mat(name, t))
            if kid[0] == first and (last is None or kid[-1] == last):
                break
            t += 1
        _ZERO[ck] = t
    return _ZERO[ck]


def names(prefix=''):
    return sorted(n for n in allmat() if n.startswith(prefix))


SIGNERS = ['rsa1024_0', 'rsa2048_0', 'dsa1024_0', 'dsa2048_0', 'ecdsa_p256_0', 'ecdsa_p384_0', 'ecdsa_p521_0',
           'ecdsa_k256_0', 'ed25519_0']
SIGNERS_FAST = ['ed25519_0', 'ecdsa_p256_0', 'rsa1024_0', 'dsa1024_0']
ENCRYPTERS = ['rsa1024_1', 'rsa2048_1', 'rsa3072_0', 'cv25519_0', 'ecdh_p256_0', 'ecdh_p384_0', 'ecdh_p521_0', 'ecdh_k256_0']


def secret_packet(name, sub=False, protect=None, created=None, hdr='new'):
    k = mat(name, created)
    body = RK.sec_body(k, protect)
    tag = 7 if sub else 5
    return (wire.new_hdr(tag, len(body)) if hdr == 'new' else wire.old_hdr(tag, len(body))) + body


def public_packet(name, sub=False, created=None):
    k = mat(name, created)
    body = RK.pub_body(k)
    return wire.new_hdr(14 if sub else 6, len(body)) + body


_CACHE = {}


def pgpy_bare(name, created=None, protect=None):
    """private PGPKey with no identity, loaded from a reference-encoded secret-key packet"""
    import pgpy
    with warnings.catch_warnings():
        warnings.simplefilter('ignore')
        k, _ = pgpy.PGPKey.from_blob(secret_packet(name, protect=protect, created=created))
    return k


def pgpy_key(name, uid='Test User', email=None, usage=None, sub=None, sub_usage=None, fresh=False, created=None, **prefs):
    """private PGPKey with one self-signed user id (and optionally one subkey), cached per argument tuple"""
    import pgpy
    from pgpy.constants import KeyFlags, HashAlgorithm, SymmetricKeyAlgorithm, CompressionAlgorithm
    ck = (name, uid, email, tuple(sorted(usage)) if usage else None, sub, tuple(sorted(sub_usage)) if sub_usage else None, created,
          tuple(sorted((a, repr(b)) for a, b in prefs.items())))
    if not fresh and ck in _CACHE:
        return _CACHE[ck]
    m = mat(name)
    with warnings.catch_warnings():
        warnings.simplefilter('ignore')
        k = pgpy_bare(name, created)
        if usage is None:
            usage = {KeyFlags.Certify, KeyFlags.Sign} if m['alg'] != 18 else {KeyFlags.EncryptCommunications, KeyFlags.EncryptStorage}
            if m['alg'] == 1:
                usage = usage | {KeyFlags.EncryptCommunications, KeyFlags.EncryptStorage}
        prefs.setdefault('hashes', [HashAlgorithm.SHA256, HashAlgorithm.SHA512, HashAlgorithm.SHA1])
        prefs.setdefault('ciphers', [SymmetricKeyAlgorithm.AES256, SymmetricKeyAlgorithm.AES128])
        prefs.setdefault('compression', [CompressionAlgorithm.ZLIB, CompressionAlgorithm.ZIP, CompressionAlgorithm.BZ2, CompressionAlgorithm.Uncompressed])
        k.add_uid(pgpy.PGPUID.new(uid, email=email or (name + '@example.org')), usage=set(usage), **prefs)
        if sub:
            sk = pgpy_bare(sub)
            sm = mat(sub)
            if sub_usage is None:
                sub_usage = {KeyFlags.EncryptCommunications, KeyFlags.EncryptStorage} if sm['alg'] in (18,) else {KeyFlags.Sign}
            k.add_subkey(sk, usage=set(sub_usage))
    if not fresh:
        _CACHE[ck] = k
    return k


def pubkey_of(name, **kw):
    return pgpy_key(name, **kw).pubkey
