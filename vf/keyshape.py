"""Key-shape generator shared by C14/C15/C16: builds transferable keys of arbitrary shape through PGPy's own key-management API
(from reference-encoded bare secret-key packets), and reads component trees both from PGPy objects and from exported octets."""
import warnings
from datetime import datetime, timezone, timedelta

from .ref import wire, keys as RK, sig as RS, grammar
from . import pool, sigwork

PRIMARIES = ['ed25519_0', 'rsa1024_0', 'ecdsa_p256_0', 'dsa1024_0', 'ecdsa_k256_0', 'ed25519_1', 'rsa2048_0', 'ecdsa_p384_0']
SUBPOOL = ['cv25519_0', 'cv25519_1', 'ed25519_2', 'ecdh_p256_0', 'rsa1024_1', 'ecdsa_p256_1', 'ecdh_k256_0', 'ed25519_3', 'dsa1024_1', 'ecdh_p384_0', 'ecdh_p256_1+kdf10.9', 'cv25519_2+kdf9.8']
CERTIFIERS = ['ed25519_3', 'ecdsa_p256_2', 'rsa1024_2']
UIDTEXTS = [('Alice Example', '', 'alice@example.org'), ('Ünïcode Nämé 日本', 'cömment', 'u@example.org'), ('Bob', 'work', 'bob@work.example'), ('NoMail', '', ''),
            ('Zed', '', 'zed@example.org'), ('Dup Name', 'a', 'dup@example.org')]
T0 = datetime(2020, 1, 1, tzinfo=timezone.utc)


def random_shape(r, rich=True, bare=False):
    nu = r.randint(1, 4)
    texts = r.sample(range(len(UIDTEXTS)), nu)
    same = r.random() < 0.4
    shape = {'primary': r.choice(PRIMARIES), 'same_second': same, 'uids': [], 'uas': r.choice([0, 0, 1, 2]) if rich else 0, 'subs': [],
             'direct': r.random() < 0.4, 'revoker': r.random() < 0.3, 'key_revoked': r.random() < 0.15,
             'third_direct': r.choice([None, None, 'exportable', 'local', 'both']), 'sub_local_cert': r.random() < 0.15}
    shape['revoker_sensitive'] = shape['revoker'] and r.random() < 0.5
    for t in texts:
        shape['uids'].append({'text': t, 'third': r.choice([0, 0, 1, 2, 3]), 'revoked': r.random() < 0.2, 'nonexp': r.random() < 0.3, 'exp_true': r.random() < 0.3,
                              'attest': r.random() < 0.2, 'recert': r.random() < 0.3, 'primary': r.choice([None, True, False]),
                              # an identity nobody has (exportably) certified: it is still part of the key
                              'bare': bare and len(shape['uids']) > 0 and r.random() < 0.18,
                              # a third-party certification whose own expiration time has already passed
                              'lapsed': r.random() < 0.2})
    shape['ua_bare'] = bare and bool(shape['uas']) and r.random() < 0.3
    for s in r.sample(SUBPOOL, r.randint(0, 3)):
        shape['subs'].append({'name': s, 'revoked': r.random() < 0.25})
    return shape


def certifier(name):
    return pool.pgpy_key(name, uid='Certifier ' + name)


def build(shape):
    """-> (private PGPKey, info dict with the expected non-exportable signature octets)"""
    import pgpy
    from pgpy.constants import KeyFlags, SignatureType, HashAlgorithm
    info = {'nonexportable': [], 'exportable': []}
    tick = [0]
    later = []

    def when():
        if not shape.get('same_second'):
            tick[0] += 1
        return T0 + timedelta(seconds=tick[0])

    with warnings.catch_warnings():
        warnings.simplefilter('ignore')
        k = pool.pgpy_bare(shape['primary'])
        pm = pool.mat(shape['primary'])
        for i, u in enumerate(shape['uids']):
            name, comment, email = UIDTEXTS[u['text']]
            uid = pgpy.PGPUID.new(name, comment=comment, email=email)
            kw = {'usage': {KeyFlags.Sign, KeyFlags.Certify}, 'hashes': [HashAlgorithm.SHA256], 'created': when()}
            if u.get('primary') is not None:
                kw['primary'] = u['primary']
            if u.get('bare'):
                # added once everything else is signed: PGPy's signing path reads the preferences of the first identity's self-signature
                later.append((uid, u))
                continue
            k.add_uid(uid, **kw)
            if u.get('recert'):
                uid |= k.certify(uid, SignatureType.Positive_Cert, usage={KeyFlags.Sign, KeyFlags.Certify, KeyFlags.Authentication}, hashes=[HashAlgorithm.SHA512], created=when())
            for j in range(u['third']):
                c = certifier(CERTIFIERS[j % len(CERTIFIERS)])
                opts = {'created': when()}
                if u.get('nonexp') and j == 0:
                    opts['exportable'] = False
                elif u.get('exp_true') and j == 1:
                    opts['exportable'] = True
                s = c.certify(uid, [SignatureType.Generic_Cert, SignatureType.Casual_Cert, SignatureType.Persona_Cert][j % 3], **opts)
                uid |= s
                (info['nonexportable'] if opts.get('exportable') is False else info['exportable']).append(bytes(s))
            if u.get('lapsed'):
                s = certifier(CERTIFIERS[0]).certify(uid, SignatureType.Casual_Cert, created=T0 - timedelta(days=30, seconds=tick[0]), expires=timedelta(days=1))
                uid |= s
                info['exportable'].append(bytes(s))
            if u.get('attest') and u['third']:
                thirds = [s for s in uid._signatures if s.signer != k.fingerprint.keyid]
                uid |= k.certify(uid, SignatureType.Attestation, attested_certifications=thirds, created=when())
            if u.get('revoked') and len(shape['uids']) > 1 and i > 0:
                uid |= k.revoke(uid, created=when())
        for n in range(shape.get('uas', 0)):
            ua = pgpy.PGPUID.new(bytearray(sigwork.JPEG + bytes([n]) * (n + 1)))
            if shape.get('ua_bare') and n == 0:
                later.append((ua, {}))
            else:
                k.add_uid(ua, created=when())
        if pm['alg'] == 18:
            raise ValueError('ECDH primary')
        for sdesc in shape['subs']:
            sk = pool.pgpy_bare(sdesc['name'])
            sm = pool.mat(sdesc['name'])
            usage = {KeyFlags.EncryptCommunications, KeyFlags.EncryptStorage} if sm['alg'] == 18 else ({KeyFlags.Sign} if sm['alg'] != 1 else {KeyFlags.Sign, KeyFlags.EncryptCommunications})
            k.add_subkey(sk, usage=usage, created=when())
            if sdesc.get('revoked'):
                sk |= k.revoke(sk, created=when())
        if shape.get('direct'):
            k |= k.certify(k, created=when())
        td = shape.get('third_direct')
        if td:
            # certifications by others directly on the key (type 0x1F), exportable or local
            for j, exp in enumerate({'exportable': [True], 'local': [False], 'both': [None, False]}[td]):
                c = certifier(CERTIFIERS[(j + 1) % len(CERTIFIERS)])
                opts = {'created': when()}
                if exp is not None:
                    opts['exportable'] = exp
                s_ = c.certify(k, **opts)
                k |= s_
                (info['nonexportable'] if exp is False else info['exportable']).append(bytes(s_))
        if shape.get('revoker'):
            # designated revoker, also a "sensitive" one: a direct-key self-signature like any other as far as export is concerned
            rs_ = k.revoker(certifier(CERTIFIERS[0]).pubkey, sensitive=bool(shape.get('revoker_sensitive')), created=when())
            k |= rs_
            info['exportable'].append(bytes(rs_))
        if shape.get('key_revoked'):
            k |= k.revoke(k, created=when())
        for uid, u in later:
            k.add_uid(uid, selfsign=False)
            for j in range(min(u.get('third', 0), 1) if u.get('nonexp') else 0):
                s = certifier(CERTIFIERS[j]).certify(uid, SignatureType.Generic_Cert, exportable=False, created=when())
                uid |= s
                info['nonexportable'].append(bytes(s))
    return k, info


def blob_tree(blob):
    """reference reading of an exported transferable key -> canonical tree (primary body, direct sig bodies, [(tag, uid body, sig bodies)], [(sub body, sig bodies)])"""
    out = []
    for key in grammar.parse_keys(wire.split(blob)):
        out.append({'primary': (key['primary'].tag, key['primary'].body),
                    'direct': sorted(s.body for s in key['direct']),
                    'uids': sorted((u.tag, u.body, tuple(sorted(s.body for s in sigs))) for u, sigs in key['uids']),
                    'subkeys': sorted((k.tag, k.body, tuple(sorted(s.body for s in sigs))) for k, sigs in key['subkeys'])})
    return out


def _sigbody(s):
    raw = bytes(s)
    return wire.split(raw)[0].body


def obj_tree(k, exportable_only=True):
    """the same tree read off the PGPy object through its attributes"""
    def sigs(lst):
        return tuple(sorted(_sigbody(s) for s in lst if not s.embedded and (s.exportable or not exportable_only)))
    kp = wire.split(bytes(k._key.__bytearray__()))[0]
    t = {'primary': (kp.tag, kp.body), 'direct': sorted(sigs(k.__sig__)), 'uids': [], 'subkeys': []}
    for u in list(k.userids) + list(k.userattributes):
        up = wire.split(bytes(u._uid.__bytearray__()))[0]
        t['uids'].append((up.tag, up.body, sigs(u.__sig__)))
    t['uids'].sort()
    for sk in k.subkeys.values():
        sp = wire.split(bytes(sk._key.__bytearray__()))[0]
        t['subkeys'].append((sp.tag, sp.body, sigs(sk.__sig__)))
    t['subkeys'].sort()
    return t


def tree_diff(a, b):
    out = []
    for f in ('primary', 'direct', 'uids', 'subkeys'):
        if a[f] != b[f]:
            if f in ('uids', 'subkeys'):
                out.append('%s: %d vs %d components, sig counts %s vs %s' % (f, len(a[f]), len(b[f]), [len(x[2]) for x in a[f]], [len(x[2]) for x in b[f]]))
            else:
                out.append(f)
    return out
