"""sys.monitoring helpers: source-free failpoints (raise at the k-th executed line of pgpy code while armed) and call counters."""
import os
import sys

TOOL = 4
mon = sys.monitoring


class InjectedFault(Exception):
    """raised by a failpoint inside the code under test"""


class LineFailpoints(object):
    """Counts LINE events of code under <repo>/pgpy while armed; when fire_at == current count, raises InjectedFault once and disarms.
    exclude(code, lineno) -> True removes an event from counting and injection."""

    def __init__(self, repo_pgpy_dir, exclude=None):
        self.dir = os.path.realpath(repo_pgpy_dir) + os.sep
        self.exclude = exclude
        self.armed = False
        self.count = 0
        self.fire_at = None
        self.fired_where = None
        self._mine = {}

    def _is_mine(self, code):
        r = self._mine.get(code)
        if r is None:
            fn = code.co_filename
            r = os.path.realpath(fn).startswith(self.dir) if not fn.startswith('<') else False
            self._mine[code] = r
        return r

    def _line(self, code, lineno):
        if not self._is_mine(code):
            return mon.DISABLE
        if not self.armed:
            return None
        if self.exclude is not None and self.exclude(code, lineno):
            return None
        k = self.count
        self.count += 1
        if self.fire_at is not None and k == self.fire_at:
            self.armed = False
            self.fired_where = '%s:%s:%d' % (os.path.basename(code.co_filename), code.co_name, lineno)
            raise InjectedFault(self.fired_where)
        return None

    def __enter__(self):
        mon.use_tool_id(TOOL, 'vf-failpoints')
        mon.register_callback(TOOL, mon.events.LINE, self._line)
        mon.set_events(TOOL, mon.events.LINE)
        return self

    def __exit__(self, *a):
        mon.set_events(TOOL, 0)
        mon.register_callback(TOOL, mon.events.LINE, None)
        mon.free_tool_id(TOOL)
        return False

    def reset(self, fire_at=None):
        self.count = 0
        self.fire_at = fire_at
        self.fired_where = None
        self.armed = False
        mon.restart_events()


class CallCounter(object):
    """PY_START counters on given functions (anchor reach evidence)"""

    def __init__(self, funcs, tool=5):
        self.tool = tool
        self.codes = {}
        for name, f in funcs.items():
            code = getattr(f, '__code__', None) or getattr(getattr(f, '__wrapped__', None), '__code__', None) or getattr(getattr(f, 'fget', None), '__code__', None)
            if code is not None:
                self.codes[code] = name
        self.hits = {n: 0 for n in self.codes.values()}

    def _start(self, code, offset):
        n = self.codes.get(code)
        if n is not None:
            self.hits[n] += 1

    def __enter__(self):
        mon.use_tool_id(self.tool, 'vf-anchors')
        mon.register_callback(self.tool, mon.events.PY_START, self._start)
        for code in self.codes:
            mon.set_local_events(self.tool, code, mon.events.PY_START)
        return self

    def __exit__(self, *a):
        for code in self.codes:
            mon.set_local_events(self.tool, code, 0)
        mon.register_callback(self.tool, mon.events.PY_START, None)
        mon.free_tool_id(self.tool)
        return False
