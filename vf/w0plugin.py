"""W0: pytest plugin that runs the repository's own test-suite under always-on, observation-only monitors.
Loaded with `-p vf.w0plugin` (PYTHONPATH=/verif); writes what the monitors observed to $VF_W0_OUT at session end.

Monitors (each records events and violations per property, never changes a result):
  C17  every object returned by PGPKey.verify: partition law and truthiness
  C18  every fingerprint computed: equals SHA-1(0x99 || len || public-key packet body) per the reference parser
  C05  every PGPSignature.hashdata() of a *parsed* signature packet: header+hashed-area octets fed to the hash == octets received
  C10  every armored text produced: decodes (reference dearmor) to bytes(obj); label, line length, CRC-24
  C13  every os.urandom output of >= 8 octets in the whole session is distinct from all earlier ones of that length
  C20  every non-cleartext PGPMessage export is derivable from the RFC 4880 11.3 grammar
"""
import collections
import json
import os
import sys

EV = collections.Counter()
VIOL = collections.defaultdict(list)


def viol(prop, kind, detail):
    EV['%s_violations' % prop] += 1
    if len(VIOL[prop]) < 20:
        VIOL[prop].append({'kind': kind, 'detail': detail, 'test': os.environ.get('PYTEST_CURRENT_TEST', '')})


def install():
    import pgpy
    from pgpy.types import Armorable
    from pgpy.packet import packets as P
    from vf.ref import wire, keys as RK, sig as RS, armor, grammar
    import hashlib

    # ---- C17
    orig_verify = pgpy.PGPKey.verify

    def verify(self, subject, signature=None):
        sv = orig_verify(self, subject, signature)
        try:
            EV['C17_verdicts'] += 1
            good = list(sv.good_signatures)
            bad = list(sv.bad_signatures)
            if len(good) + len(bad) != len(sv) or {id(x) for x in good} & {id(x) for x in bad}:
                viol('C17', 'verdict-not-a-partition', {'n': len(sv), 'good': len(good), 'bad': len(bad)})
            if bool(sv) != (not bad):
                viol('C17', 'verdict-truthiness-incoherent', {'bool': bool(sv), 'bad': len(bad)})
        except Exception as e:   # monitor errors must never leak into the suite
            EV['monitor_errors'] += 1
        return sv
    pgpy.PGPKey.verify = verify

    # ---- C18
    fp_prop = P.PubKeyV4.__dict__['fingerprint']

    def fingerprint(self):
        f = fp_prop.fget(self)
        try:
            EV['C18_fingerprints'] += 1
            raw = bytes(self.__bytearray__())
            pk = wire.split(raw)[0]
            exp = RK.fingerprint(RK.parse_pub(pk.body)['pubbody']).hex().upper()
            if str(f) != exp or f.keyid != exp[-16:]:
                viol('C18', 'fingerprint-differs-from-reference', {'got': str(f), 'expected': exp})
        except (wire.Malformed, KeyError, IndexError):
            EV['C18_unparseable_by_reference'] += 1
        except Exception:
            EV['monitor_errors'] += 1
        return f
    P.PubKeyV4.fingerprint = property(fingerprint)

    # ---- C05: remember the received octets of every parsed v4 signature packet
    import weakref
    received = weakref.WeakKeyDictionary()     # SignatureV4 object -> octets it was parsed from (kept outside the object: observation only)
    orig_sigparse = P.SignatureV4.parse

    def sigparse(self, packet):
        rec = None
        try:
            n = self.header.length
            if getattr(self.header, 'version', 0) == 0:
                rec = bytes(packet[:n])                                  # embedded signature: the version octet is still in the buffer
            else:
                rec = bytes([self.header.version]) + bytes(packet[:max(n - 1, 0)])   # the packet header has consumed the version octet
        except Exception:
            rec = None
        r = orig_sigparse(self, packet)
        if rec is not None and rec[:1] == b'\x04':
            received[self] = rec
        return r
    P.SignatureV4.parse = sigparse

    orig_sigcopy = P.SignatureV4.__copy__

    def sigcopy(self):
        c = orig_sigcopy(self)
        if self in received:
            received[c] = received[self]
        return c
    P.SignatureV4.__copy__ = sigcopy

    orig_hashdata = pgpy.PGPSignature.hashdata

    def hashdata(self, subject):
        hd = orig_hashdata(self, subject)
        try:
            rec = received.get(self._signature)
            nh = len(list(self._signature.subpackets._hashed_sp)) if hasattr(self._signature.subpackets, '_hashed_sp') else None
            if rec is not None:
                hl = int.from_bytes(rec[4:6], 'big')
                region = rec[:6 + hl]
                tl = int.from_bytes(hd[-4:], 'big')
                got = hd[-(6 + tl):-6]
                EV['C05_hashdata_of_parsed_signatures'] += 1
                if got != region:
                    # a caller may legitimately add hashed subpackets to a parsed signature before re-signing: only judge unchanged ones
                    if len(RS.subpackets(region[6:])) == nh:
                        viol('C05', 'hashed-octets-differ-from-received', {'received': region.hex()[:200], 'hashed': bytes(got).hex()[:200]})
        except Exception:
            EV['monitor_errors'] += 1
        return hd
    pgpy.PGPSignature.hashdata = hashdata

    # ---- C10
    orig_str = Armorable.__str__

    def armored(self):
        s = orig_str(self)
        try:
            EV['C10_armored_texts'] += 1
            d = armor.dearmor(s)
            raw = self.__bytes__()
            if d['data'] != raw:
                viol('C10', 'armor-payload-differs', {'kind': d['kind']})
            if d['maxline'] > 76 or d['crc'] != armor.crc24(raw):
                viol('C10', 'armor-line-or-crc', {'maxline': d['maxline'], 'crc': d['crc']})
            if d['kind'] != self.magic and not (self.magic == 'SIGNATURE' and d['kind'] == 'SIGNATURE'):
                viol('C10', 'armor-label', {'label': d['kind'], 'magic': self.magic})
        except wire.Malformed as e:
            viol('C10', 'armor-not-decodable-by-reference', {'err': str(e)})
        except Exception:
            EV['monitor_errors'] += 1
        return s
    Armorable.__str__ = armored

    # ---- C13
    real_urandom = os.urandom
    seen = {}

    def urandom(n):
        b = real_urandom(n)
        if n >= 8:
            EV['C13_urandom_outputs'] += 1
            if b in seen.setdefault(n, set()):
                viol('C13', 'random-source-output-repeated', {'len': n})
            seen[n].add(b)
        return b
    os.urandom = urandom

    # ---- C20
    orig_msgbytes = pgpy.PGPMessage.__bytearray__

    def msgbytes(self):
        b = orig_msgbytes(self)
        try:
            if self._message is not None and self.type != 'cleartext':
                EV['C20_message_exports'] += 1
                try:
                    grammar.parse_message(wire.split(bytes(b)))
                except (wire.Malformed, grammar.NotGrammatical) as e:
                    viol('C20', 'export-not-derivable-from-message-grammar', {'err': str(e)[:160]})
        except Exception:
            EV['monitor_errors'] += 1
        return b
    pgpy.PGPMessage.__bytearray__ = msgbytes


def pytest_configure(config):
    sys.path.insert(0, os.path.dirname(os.path.dirname(os.path.abspath(__file__))))
    install()


def pytest_sessionfinish(session, exitstatus):
    out = os.environ.get('VF_W0_OUT')
    if out:
        json.dump({'events': dict(EV), 'violations': dict(VIOL)}, open(out, 'w'), indent=1)
