"""C17 -- verification verdicts are coherent: disqualifying conditions always disqualify.

(i) fault enumeration at the verdict aggregator: every one of the 2^11 issue bit-sets is forced as the verifying key's soundness
result (interposition on PGPKey.check_soundness / check_primitives of the real class), for a correct and an incorrect signature,
one and three signatures per call; the returned object is compared with a 5-line verdict model and checked for the partition law
and for monotonicity under advisory bits.  (ii) real end-to-end combinations: expired / unexpired / revoked keys of weak and
strong parameters, self and third-party subjects, right and wrong signatures, several signatures per call.
"""
import warnings
from datetime import datetime, timezone, timedelta

from .. import pool
from ..ref import sig as RS

W0_COUNTER = 'C17_verdicts'   # thorough tier: the repository's own tests run under this property's always-on monitor
LEVEL = 'exploration'
RULE = ('(i) exhaustive: case = block of forced issue bit-sets x {correct, wrong signature} x {1, 3 signatures}; one evaluation per verify call; '
        '(ii) case = (key, expiry state, revocation, subject kind, signature correctness); non-trivial = at least one disqualifying and one '
        'advisory bit present, or an expired/revoked real key; distinct = distinct (bit-set, variant) or real-case descriptors')
ASSUMPTIONS = ['the set of disqualifying conditions is the one the library documents in SecurityIssues.causes_signature_verify_to_fail: '
               'WrongSig, Expired, Disabled, Invalid, NoSelfSignature', 'forcing the soundness result replaces only the *input* of the aggregator']
MIN_COUNTERS = {'forced_verdicts': 8000, 'partition_checked': 8000, 'real_verdicts': 40, 'real_expired': 8, 'monotonic_pairs': 10000, 'same_second_pairs': 12, 'rewritten_hash_octets': 200, 'out_of_range_rsa_signatures': 40}
BUDGET = {'quick': (600, 1500), 'thorough': (1200, 3600)}
TECHNIQUE = 'runtime monitoring: fault enumeration at the verdict aggregator (all 2^11 issue bit-sets) + verdict-model oracle + partition invariant on every result'

DISQ = 0b10000010111   # WrongSig | Expired | Disabled | Invalid | NoSelfSignature  (bits 0,1,2,4,10)
ADVISORY = 0b01111101000   # Revoked, BrokenAsymmetricFunc, HashNotCR, HashNot2ndPre, KeyTooShort, InsecureCurve


def cases(tier, seed):
    cs = []
    for lo in range(0, 2048, 128):
        for wrong in (False, True):
            for nsig in (1, 3):
                cs.append({'t': 'forced', 'lo': lo, 'hi': lo + 128, 'wrong': wrong, 'nsig': nsig})
    keys = ['rsa1024_0', 'rsa2048_0', 'dsa1024_0', 'dsa2048_0', 'ecdsa_p256_0', 'ed25519_0', 'ecdsa_k256_0', 'ecdsa_p521_0']
    for k in keys:
        for exp in ('none', 'future', 'expired'):
            for rev in (False, True):
                cs.append({'t': 'real', 'key': k, 'exp': exp, 'rev': rev})
    # the same with further identities added later that say nothing about expiry (and one added before, for the other order): the only expiry the
    # key's self-signatures state stays in force
    for j, k in enumerate(keys):
        for exp in ('none', 'future', 'expired'):
            cs.append({'t': 'real', 'key': k, 'exp': exp, 'rev': False, 'more': ['later', 'two-later', 'later-primary'][j % 3]})
    cs.append({'t': 'multi'})
    for k in keys[:4] if tier == 'quick' else keys:
        cs.append({'t': 'restate', 'key': k})
    cs.append({'t': 'default_issues'})
    return cs


def check_partition(ctx, sv, where):
    """every examined signature is listed exactly once as good or bad; truthy iff none bad"""
    ctx.count('partition_checked')
    good = list(sv.good_signatures)
    bad = list(sv.bad_signatures)
    n = len(sv)
    ids_g = [id(x) for x in good]
    ids_b = [id(x) for x in bad]
    allids = [id(x) for x in sv._subjects] if hasattr(sv, '_subjects') else None
    if len(good) + len(bad) != n or set(ids_g) & set(ids_b) or (allids is not None and sorted(ids_g + ids_b) != sorted(allids)):
        ctx.fail('verdict-not-a-partition', {'where': where, 'n': n, 'good': len(good), 'bad': len(bad)})
    if bool(sv) != (len(bad) == 0):
        ctx.fail('verdict-truthiness-incoherent', {'where': where, 'bool': bool(sv), 'bad': len(bad), 'good': len(good)})
    return good, bad


def run_case(ctx, d):
    import pgpy
    from pgpy.constants import SecurityIssues
    with warnings.catch_warnings():
        warnings.simplefilter('ignore')
        if d['t'] == 'forced':
            _forced(ctx, d, pgpy, SecurityIssues)
        elif d['t'] == 'real':
            _real(ctx, d, pgpy, SecurityIssues)
        elif d['t'] == 'multi':
            _multi(ctx, d, pgpy, SecurityIssues)
        elif d['t'] == 'restate':
            _restate(ctx, d, pgpy, SecurityIssues)
        elif d['t'] == 'default_issues':
            _default(ctx, d, pgpy, SecurityIssues)


_TABLE = {}


def _forced(ctx, d, pgpy, SI):
    k = pool.pgpy_key('ed25519_0', sub='ed25519_1')
    pub = k.pubkey
    sub = list(k.subkeys.values())[0]
    doc = 'forced verdict subject'
    sig = k.sign(doc)
    assert bool(pub.verify(doc, sig)), 'baseline must verify'
    subject = doc if not d['wrong'] else doc + ' tampered'
    cls = pgpy.PGPKey
    orig_s, orig_p = cls.check_soundness, cls.check_primitives
    forced = {'v': 0}
    calls = {'n': 0}

    def fake_soundness(self, self_verifying=False):
        calls['n'] += 1
        return SI(forced['v'])

    def fake_primitives(self):
        return SI(0)

    cls.check_soundness, cls.check_primitives = fake_soundness, fake_primitives
    try:
        if d['nsig'] == 3:
            # three signatures examined in one call: message signed by primary, by the subkey, and by the primary again
            m = pgpy.PGPMessage.new(doc, compression=pgpy.constants.CompressionAlgorithm.Uncompressed)
            m |= k.sign(m)
            m |= sub.sign(m)
            m |= k.sign(m, hash=pgpy.constants.HashAlgorithm.SHA512)
            if d['wrong']:
                m._message._contents = bytearray(b'tampered ' + bytes(m._message._contents))
        for bits in range(d['lo'], d['hi']):
            forced['v'] = bits
            before = calls['n']
            if d['nsig'] == 1:
                sv = pub.verify(subject, sig)
                nexp = 1
            else:
                sv = pub.verify(m)
                nexp = 3
            ctx.count('forced_verdicts')
            ctx.count('evaluations')
            if calls['n'] == before:
                ctx.fail('interposition-not-reached', {'bits': bits})
                continue
            ctx.count('aggregator_hits', calls['n'] - before)
            good, bad = check_partition(ctx, sv, {'bits': bits, 'variant': [d['wrong'], d['nsig']]})
            expect = (bits & DISQ) == 0 and not d['wrong']
            if len(sv) != nexp:
                ctx.fail('examined-count', {'bits': bits, 'n': len(sv), 'expected': nexp})
            if bool(sv) != expect:
                ctx.fail('verdict-differs-from-model', {'forced_issues': str(SI(bits)), 'bits': bits, 'signature_correct': not d['wrong'],
                                                        'nsig': d['nsig'], 'got': bool(sv), 'expected': expect})
            if d['wrong'] and good:
                ctx.fail('wrong-signature-listed-good', {'bits': bits, 'good': len(good)})
            _TABLE[(bits, d['wrong'], d['nsig'])] = bool(sv)
            if bits & DISQ and bits & ADVISORY:
                ctx.nontrivial({'bits': bits, 'w': d['wrong'], 'n': d['nsig']})
        # monotonicity inside this block: adding an advisory bit never turns falsy into truthy
        for bits in range(d['lo'], d['hi']):
            for a in range(11):
                ab = 1 << a
                if not ab & ADVISORY or bits & ab:
                    continue
                other = bits | ab
                if (other, d['wrong'], d['nsig']) in _TABLE:
                    ctx.count('monotonic_pairs')
                    if not _TABLE[(bits, d['wrong'], d['nsig'])] and _TABLE[(other, d['wrong'], d['nsig'])]:
                        ctx.fail('advisory-bit-turns-failing-into-passing', {'base': str(SI(bits)), 'added': str(SI(ab))})
                else:
                    # the partner lies in another block: evaluate it here
                    forced['v'] = other
                    sv2 = pub.verify(subject, sig) if d['nsig'] == 1 else pub.verify(m)
                    ctx.count('monotonic_pairs')
                    if not _TABLE[(bits, d['wrong'], d['nsig'])] and bool(sv2):
                        ctx.fail('advisory-bit-turns-failing-into-passing', {'base': str(SI(bits)), 'added': str(SI(ab))})
    finally:
        cls.check_soundness, cls.check_primitives = orig_s, orig_p
    ctx.flags['exhaustive'] = True
    if d['lo'] == 0:
        ctx.sample({'forced_bits': 'all of %d..%d' % (d['lo'], d['hi']), 'wrong_signature': d['wrong'], 'signatures_per_call': d['nsig']})


def _mk(name, exp, rev):
    """a real key, created in 2015, that is unexpired-without-expiry / expiring in the far future / expired since 2016"""
    import pgpy
    kw = {}
    if exp == 'future':
        kw['key_expiration'] = timedelta(days=365 * 40)
    elif exp == 'expired':
        kw['key_expiration'] = timedelta(days=300)
    k = pool.pgpy_key(name, fresh=True, created=1420070400, uid='C17 %s %s' % (exp, rev), sub='cv25519_0', **kw)
    if rev:
        k |= k.revoke(k)
    return k


def _real(ctx, d, pgpy, SI):
    k = _mk(d['key'], d['exp'], d['rev'])
    if d.get('more'):
        from pgpy.constants import KeyFlags, HashAlgorithm
        from datetime import datetime, timezone
        base = datetime(2015, 6, 1, tzinfo=timezone.utc)
        for n in range(2 if d['more'] == 'two-later' else 1):
            k.add_uid(pgpy.PGPUID.new('Identity added later %d' % n, email='later%d@example.org' % n), usage={KeyFlags.Sign, KeyFlags.Certify},
                      hashes=[HashAlgorithm.SHA256], created=base + timedelta(days=30 * n), **({'primary': True} if d['more'] == 'later-primary' else {}))
        ctx.count('keys_with_identities_silent_about_expiry')
    # export/import so that the verifier only has what a receiver would have
    pub = pgpy.PGPKey.from_blob(bytes(k.pubkey))[0]
    other = pool.pgpy_key('ed25519_2', uid='third party')
    doc = 'real verdict subject'
    expired = d['exp'] == 'expired'
    if expired and not pub.is_expired:
        ctx.fail('expiry-not-effective', {'case': d, 'expires_at': str(pub.expires_at)})
        return
    if not expired and pub.is_expired:
        ctx.fail('unexpired-key-reported-expired', {'case': d, 'expires_at': str(pub.expires_at)})
        return
    subjects = []
    sig = k.sign(doc)
    subjects.append(('document', doc, sig, True))
    subjects.append(('document-wrong', doc + 'x', sig, False))
    for h in (pgpy.constants.HashAlgorithm.SHA1, pgpy.constants.HashAlgorithm.MD5):
        subjects.append(('document-' + h.name, doc, k.sign(doc, hash=h), True))
    opub = other.pubkey   # keep the twin alive: it is only weakly referenced by its private half
    ouid = opub.userids[0]
    cert = k.certify(ouid)
    subjects.append(('third-party-uid', ouid, cert, True))
    subjects.append(('self-uid', pub.userids[0], pub.userids[0].selfsig, True))
    # the key itself as subject of its own direct-key signature / of a certification it made on another key
    dsig = k.certify(k)
    subjects.append(('self-key-direct', pub, dsig, True))
    subjects.append(('third-party-key-direct', opub, k.certify(opub), True))
    subjects.append(('self-key-direct-on-other-key', opub, dsig, False))
    if d['rev']:
        rsig = next(iter(pub.revocation_signatures), None)
        if rsig is not None:
            subjects.append(('self-key-revocation', pub, rsig, True))
    for label, subj, s, correct in subjects:
        sv = pub.verify(subj, s)
        ctx.count('real_verdicts')
        ctx.count('evaluations')
        if expired:
            ctx.count('real_expired')
        good, bad = check_partition(ctx, sv, {'case': d, 'subject': label})
        expect = correct and not expired
        issues = [str(x.issues) for x in sv._subjects]
        ctx.outcome('real:%s:%s' % ('expired' if expired else 'valid', 'truthy' if sv else 'falsy'))
        if bool(sv) != expect:
            ctx.fail('real-verdict-differs-from-model', {'case': d, 'subject': label, 'got': bool(sv), 'expected': expect, 'issues': issues})
        if not correct and good:
            ctx.fail('wrong-signature-listed-good', {'case': d, 'subject': label})
    # a correct signature whose hash-algorithm octet is rewritten (to identifiers the library knows by name but cannot compute - 0, RIPEMD160, the
    # reserved ones - and to other real ones): cryptographically wrong now, so never listed as good; an exception is a refusal too
    from ..ref import wire as W_
    sraw = bytes(sig)
    sp_ = W_.split(sraw)[0]
    hpos = len(sraw) - len(sp_.body) + 3
    for hid in (0, 1, 2, 3, 4, 5, 6, 7, 9, 10, 11, 12, 99):
        if sraw[hpos] == hid:
            continue
        mraw = bytearray(sraw)
        mraw[hpos] = hid
        ctx.count('rewritten_hash_octets')
        ctx.count('evaluations')
        try:
            s2 = pgpy.PGPSignature.from_blob(bytes(mraw))
            sv = pub.verify(doc, s2)
        except Exception as e:
            ctx.outcome('rewritten_hash_octet:refused:' + type(e).__name__)
            continue
        good, bad = check_partition(ctx, sv, {'case': d, 'hash_octet': hid})
        ctx.outcome('rewritten_hash_octet:' + ('truthy' if sv else 'falsy'))
        if sv or good:
            ctx.fail('wrong-signature-listed-good', {'case': d, 'subject': 'document', 'hash_octet_rewritten_to': hid, 'issues': [str(x.issues) for x in sv._subjects]})
    # RSA: the signature integer made longer than the modulus (its low-order octets still the genuine value), or raised by the modulus: out of range,
    # so never good
    if pool.mat(d['key'])['alg'] in (1, 3):
        from ..ref.wire import mpi_enc as _mpi_enc
        psg = RS.parse_sig(sp_.body)
        n_ = pool.mat(d['key'])['n']
        klen = (n_.bit_length() + 7) // 8
        s0 = psg['mpis'][0]
        for label, s1 in (('one-octet-longer', s0 + (1 << (8 * klen))), ('two-octets-longer', s0 + (0x0102 << (8 * klen))), ('raised-by-the-modulus', s0 + n_), ('raised-by-twice-the-modulus', s0 + 2 * n_)):
            body = sp_.body[:psg['mpi_offset']] + _mpi_enc(s1)
            mraw = W_.new_hdr(2, len(body)) + body
            ctx.count('out_of_range_rsa_signatures')
            ctx.count('evaluations')
            try:
                s2 = pgpy.PGPSignature.from_blob(mraw)
                sv = pub.verify(doc, s2)
            except Exception as e:
                ctx.outcome('out_of_range_rsa:refused:' + type(e).__name__)
                continue
            good, bad = check_partition(ctx, sv, {'case': d, 'rsa_integer': label})
            if sv or good:
                ctx.fail('wrong-signature-listed-good', {'case': d, 'subject': 'document', 'signature_integer': label})
    # the verifying key as an attacker would like it to read: a never-expires / expires-in-a-century (for expired keys) or an expires-after-one-
    # second (for valid ones) key-expiration subpacket appended to the unsigned area of its self-signatures: the verdict must not move
    from .. import unhashed
    for label, extra in (('expires-in-100-years', unhashed.EXPIRES_IN_100_YEARS), ('never-expires', unhashed.NEVER_EXPIRES), ('expires-after-1s', unhashed.sp(9, (1).to_bytes(4, 'big'))),
                         ('signature-expired', unhashed.sp(3, (1).to_bytes(4, 'big')))):
        blob_u, n_u = unhashed.inject(bytes(k.pubkey), {0x10, 0x11, 0x12, 0x13, 0x18, 0x1F}, extra)
        try:
            pub_u = pgpy.PGPKey.from_blob(blob_u)[0]
        except Exception:
            ctx.observe('key_with_unhashed_additions_not_loadable')
            continue
        ctx.count('real_verdicts')
        ctx.count('unsigned_expiry_additions')
        ctx.count('evaluations')
        if pub_u.is_expired != expired:
            ctx.fail('expiry-follows-unsigned-subpacket', {'case': d, 'addition': label, 'is_expired': pub_u.is_expired, 'signed_state': 'expired' if expired else 'valid'})
        sv = pub_u.verify(doc, sig)
        check_partition(ctx, sv, {'case': d, 'subject': 'document, key with unsigned ' + label})
        if bool(sv) != (not expired):
            ctx.fail('real-verdict-differs-from-model', {'case': d, 'subject': 'document', 'unsigned_addition': label, 'got': bool(sv), 'expected': not expired})
    # a signature the key cannot have made, relabelled (unhashed issuer) as coming from each of its components in turn - the encryption-only
    # subkey among them: whatever happens, it is never an empty (and therefore truthy) result, and never listed as good
    from .C01 import _rewrite_issuer
    forged = other.sign(doc)
    comps = [('primary', bytes.fromhex(str(pub.fingerprint)[-16:]))] + [('subkey ' + kid, bytes.fromhex(kid)) for kid in pub.subkeys]
    for label, kid in comps:
        fs = pgpy.PGPSignature.from_blob(_rewrite_issuer(bytes(forged), kid))
        ctx.count('real_verdicts')
        ctx.count('relabelled_forgeries')
        ctx.count('evaluations')
        for subj_label, subj in (('document', doc), ('message', None)):
            try:
                if subj is None:
                    m_ = pgpy.PGPMessage.new(doc, compression=pgpy.constants.CompressionAlgorithm.Uncompressed)
                    m_ |= fs
                    sv = pub.verify(m_)
                else:
                    sv = pub.verify(subj, fs)
            except Exception:
                ctx.outcome('relabelled_forgery_refused_with_exception')
                continue
            good, bad = check_partition(ctx, sv, {'case': d, 'subject': 'forgery relabelled as ' + label})
            if bool(sv) or good or len(sv) != 1:
                ctx.fail('wrong-signature-listed-good', {'case': d, 'subject': subj_label, 'relabelled_as': label, 'truthy': bool(sv), 'entries': len(sv), 'good': len(good)})
    ctx.nontrivial(d)
    if len(ctx.samples) < 5:
        ctx.sample({'case': d, 'verdict_on_document': bool(pub.verify(doc, sig)), 'is_expired': pub.is_expired})


def _restate(ctx, d, pgpy, SI):
    """the verdict follows the *current* state of the very same key object: valid -> expired -> valid again -> expired (new self-signatures
    with / without a key expiry are attached between verifications), each state verified several times"""
    from pgpy.constants import KeyFlags, SignatureType
    k = _mk(d['key'], 'none', False)
    pub = k.pubkey
    keep = [pub]
    doc = 'restate subject'
    sig = k.sign(doc)
    t0 = datetime.now(timezone.utc).replace(microsecond=0)    # later than the key's first self-signature, which was made a moment ago
    states = [('valid', None), ('expired', timedelta(days=200)), ('valid', None), ('expired', timedelta(days=10)), ('valid', timedelta(days=365 * 60))]
    for i, (name, kexp) in enumerate(states):
        if i:
            kw = {'created': t0 + timedelta(seconds=30 * i), 'usage': {KeyFlags.Sign, KeyFlags.Certify}}
            if kexp is not None:
                kw['key_expiration'] = kexp
            for obj in (k, pub):
                u = obj.userids[0]
                u |= k.certify(k.userids[0], SignatureType.Positive_Cert, **kw) if obj is k else pgpy.PGPSignature.from_blob(bytes(list(k.userids[0].__sig__)[-1]))
        for rep in range(3):
            for label, subj, s_, correct in (('right', doc, sig, True), ('wrong', doc + '!', sig, False)):
                sv = pub.verify(subj, s_)
                ctx.count('real_verdicts')
                ctx.count('evaluations')
                if name == 'expired':
                    ctx.count('real_expired')
                check_partition(ctx, sv, {'restate': d['key'], 'state': i})
                expect = correct and name == 'valid'
                if pub.is_expired != (name == 'expired'):
                    ctx.fail('expiry-state-not-followed', {'key': d['key'], 'state_index': i, 'state': name, 'is_expired': pub.is_expired})
                if bool(sv) != expect:
                    ctx.fail('verdict-does-not-follow-current-key-state', {'key': d['key'], 'state_index': i, 'state': name, 'repeat': rep, 'signature': label, 'got': bool(sv), 'expected': expect,
                                                                          'history': [n for n, _ in states[:i + 1]]})
    ctx.nontrivial(d)


def _multi(ctx, d, pgpy, SI):
    """several signatures of mixed quality examined in one call"""
    k = pool.pgpy_key('ed25519_0', sub='ed25519_1')
    sub = list(k.subkeys.values())[0]
    pub = pgpy.PGPKey.from_blob(bytes(k.pubkey))[0]
    for nbad in (0, 1, 2, 3):
        m = pgpy.PGPMessage.new('multi', compression=pgpy.constants.CompressionAlgorithm.Uncompressed)
        sigs = [k.sign(m), sub.sign(m), k.sign(m, hash=pgpy.constants.HashAlgorithm.SHA384)]
        other = pgpy.PGPMessage.new('multj', compression=pgpy.constants.CompressionAlgorithm.Uncompressed)
        bads = [k.sign(other), sub.sign(other), k.sign(other, hash=pgpy.constants.HashAlgorithm.SHA384)]
        for i in range(3):
            m |= bads[i] if i < nbad else sigs[i]
        sv = pub.verify(m)
        ctx.count('real_verdicts')
        ctx.count('evaluations')
        good, bad = check_partition(ctx, sv, {'multi': nbad})
        if len(sv) != 3 or len(bad) != nbad or bool(sv) != (nbad == 0):
            ctx.fail('multi-signature-verdict', {'nbad': nbad, 'n': len(sv), 'bad': len(bad), 'bool': bool(sv)})
    # signatures that agree in signer, kind, hash and creation second are still different signatures: each is examined and listed
    from datetime import datetime, timezone
    from ..ref import wire
    t = datetime(2020, 2, 2, 2, 2, 2, tzinfo=timezone.utc)
    unc = pgpy.constants.CompressionAlgorithm.Uncompressed
    for signer in (k, sub):
        for label in ('good-then-wrong', 'wrong-then-good', 'good-good'):
            m = pgpy.PGPMessage.new('same second', compression=unc)
            other = pgpy.PGPMessage.new('same sec0nd', compression=unc)
            g1 = signer.sign(m, created=t)
            g2 = signer.sign(m, created=t, notation={'n@example.org': 'second signature of the same second'})
            w = signer.sign(other, created=t)
            for x in {'good-then-wrong': (g1, w), 'wrong-then-good': (w, g1), 'good-good': (g1, g2)}[label]:
                m |= x
            for form, mm in (('built', m), ('reloaded', pgpy.PGPMessage.from_blob(bytes(m)))):
                sv = pub.verify(mm)
                ctx.count('real_verdicts')
                ctx.count('same_second_pairs')
                ctx.count('evaluations')
                good, bad = check_partition(ctx, sv, {'multi': label})
                nbad = 0 if label == 'good-good' else 1
                if len(sv) != 2 or len(bad) != nbad or bool(sv) != (nbad == 0):
                    ctx.fail('multi-signature-verdict', {'same_second': label, 'form': form, 'signer': 'key' if signer is k else 'subkey', 'n': len(sv), 'bad': len(bad), 'bool': bool(sv)})
    # ... the same inside a key: two identities certified in the same second, the name of one altered afterwards
    k2 = pool.pgpy_key('ed25519_2', fresh=True, uid='First Identity', created=1500000000)
    k2.userids[0] |= k2.certify(k2.userids[0], created=t, usage={pgpy.constants.KeyFlags.Sign, pgpy.constants.KeyFlags.Certify})
    k2.add_uid(pgpy.PGPUID.new('Second Identity'), created=t, usage={pgpy.constants.KeyFlags.Sign, pgpy.constants.KeyFlags.Certify})
    pk = wire.split(bytes(k2.pubkey))
    uidx = [i for i, p_ in enumerate(pk) if p_.tag == 13]
    for which in uidx:
        blob = b''.join((wire.new_hdr(13, len(p_.body)) + p_.body[:-1] + b'!') if i == which else p_.raw for i, p_ in enumerate(pk))
        kk = pgpy.PGPKey.from_blob(blob)[0]
        sv = kk.verify(kk)
        ctx.count('real_verdicts')
        ctx.count('same_second_pairs')
        ctx.count('evaluations')
        good, bad = check_partition(ctx, sv, {'multi': 'identities-same-second'})
        if bool(sv) or not bad:
            ctx.fail('multi-signature-verdict', {'same_second': 'two identities, the name of one altered', 'altered_packet_index': which, 'n': len(sv), 'bad': len(bad), 'bool': bool(sv)})
    ctx.nontrivial(d)


def _default(ctx, d, pgpy, SI):
    """an entry added without an explicit result must not count as a success"""
    from pgpy.types import SignatureVerification
    sv = SignatureVerification()
    sv.add_sigsubj(None, None, None)
    ctx.count('evaluations')
    good, bad = check_partition(ctx, sv, 'default-issues')
    if bool(sv) or good:
        ctx.fail('unknown-result-counts-as-success', {'issues': str(sv._subjects[0].issues), 'bool': bool(sv)})
    ctx.nontrivial(d)
