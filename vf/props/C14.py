"""C14 -- transferable keys survive export and import with their structure intact.

Reference-model monitor over generated key shapes (1..4 user ids, user attributes, self / third-party / attestation / revocation
signatures, direct-key signatures, designated revokers, 0..3 subkeys with bindings, cross-signatures and revocations, equal creation
times, explicit exportable=true/false): the exported octets are read by the independent transferable-key parser into a component tree;
the same tree is read off the PGPy objects before export and after import (binary and armor, public and private, two passes); every
signature that verified before must verify after; non-exportable signatures, and only those, are omitted; concatenated keys are split
correctly; copies export identically; foreign framings (old-format headers, interleaved trust packets, GnuPG exports) import to the same tree.
"""
import copy
import warnings

from ..core import hx
from ..ref import wire, keys as RK, sig as RS, grammar, armor
from .. import pool, keyshape, gpgx, foreignkey
from ..oracle_selftest import verify_key_blob

LEVEL = 'exploration'
RULE = ('case = key shape (generated from the seed) or a concatenation of shapes; one evaluation per export/import pass compared; non-trivial = shape with at '
        'least two components carrying signatures, or a non-exportable signature, or equal creation times; distinct = distinct shape descriptors')
ASSUMPTIONS = ['vf.ref.grammar transferable-key parser (11.1/11.2)', 'signature validity per vf.ref.sig']
MIN_COUNTERS = {'quick': {'shapes': 100, 'passes_compared': 500, 'signatures_reverified': 1500, 'nonexportable_seen': 20, 'concatenations': 20, 'copies': 120, 'foreign_encoded_keys': 15, 'generated_keys': 10, 'mixed_concatenations': 6, 'held_public_exports': 30, 'reprotected_exports': 20, 'lapsed_binding_exports': 20},
                'thorough': {'shapes': 1500}}
BUDGET = {'quick': (600, 1500), 'thorough': (1800, 3600)}
TECHNIQUE = 'runtime monitoring: differential reference-model monitor (independent transferable-key parser + verifier) over generated key shapes'


def cases(tier, seed):
    cs = []
    n = 140 if tier == 'quick' else 8000
    for i in range(n):
        cs.append({'t': 'shape', 'i': i, 'seed': seed})
    for i in range(24 if tier == 'quick' else 800):
        cs.append({'t': 'concat', 'i': i, 'seed': seed})
    tnames = ['none', 'utc', 'plus0530', 'minus0800', 'micro', 'plus14']
    for j, alg in enumerate(['ed', 'p256', 'k256', 'p521']):
        for n_, tn in enumerate(tnames):
            if tier == 'quick' and (j + n_) % 2:
                continue
            cs.append({'t': 'generated', 'alg': alg, 'time': tn, 'subtime': tnames[(n_ + 1 + j) % len(tnames)]})
    # whole keys written by the reference encoder/signer in encodings that are legal but not PGPy's own
    pairs = [('ed25519_0', 'cv25519_0'), ('rsa1024_0', 'ed25519_1'), ('ecdsa_p256_0', 'ecdh_p256_1+kdf10.9'), ('dsa1024_0', None), ('ecdsa_p384_0', 'rsa1024_1'), ('ed25519_1', 'ecdsa_p256_1')]
    for j, style in enumerate(foreignkey.STYLES):
        for n_, (p, sname) in enumerate(pairs):
            if tier == 'quick' and (j + n_) % 2:
                continue
            cs.append({'t': 'foreignenc', 'style': style, 'primary': p, 'sub': sname, 'protect': (j + n_) % 3 == 0, 'uid': ['utf8', 'latin1', 'notext'][(j + n_) % 3]})
    # the public half is taken early (and kept by the caller) while the key keeps growing
    for i in range(16 if tier == 'quick' else 400):
        cs.append({'t': 'heldpub', 'i': i, 'seed': seed, 'keep': ['strong', 'strong', 'dropped', 'list'][i % 4]})
    # subkeys whose binding signature has lapsed (its own expiration time has passed): still part of the key that is exported and imported
    for i in range(6 if tier == 'quick' else 60):
        cs.append({'t': 'lapsed_binding', 'i': i, 'seed': seed})
    # keys whose protection is changed (other passphrase, cipher of another block size, other hash) before they are exported
    for i in range(12 if tier == 'quick' else 200):
        cs.append({'t': 'reprotected', 'i': i, 'seed': seed})
    if gpgx.available():
        cs.append({'t': 'gpg', 'seed': seed, 'n': 4 if tier == 'quick' else 20})
    return cs


def selfsig_report(blob):
    st = {}
    verify_key_blob(blob, st, canonical=False, ignore_left16=False)
    return st.get('verified', 0), st.get('rejected', 0)


def verified_sigs(pgpy, k):
    """bodies of all self-issued signatures PGPy verifies good / bad on key k"""
    good, bad = set(), set()
    try:
        sv = k.verify(k)
    except Exception:
        return good, bad, 'error'
    for e in sv.good_signatures:
        good.add(keyshape._sigbody(e.signature) if not e.signature.embedded else bytes(e.signature._signature.__bytearray__()))
    for e in sv.bad_signatures:
        bad.add(keyshape._sigbody(e.signature) if not e.signature.embedded else bytes(e.signature._signature.__bytearray__()))
    return good, bad, 'ok'


def run_case(ctx, d):
    import pgpy
    with warnings.catch_warnings():
        warnings.simplefilter('ignore')
        if d['t'] == 'shape':
            r = ctx.rng('shape', d['i'], d['seed'])
            shape = keyshape.random_shape(r, bare=True)
            k, info = keyshape.build(shape)
            _check_key(ctx, pgpy, k, info, shape, r)
        elif d['t'] == 'concat':
            _concat(ctx, d, pgpy)
        elif d['t'] == 'generated':
            _generated(ctx, d, pgpy)
        elif d['t'] == 'foreignenc':
            _foreignenc(ctx, d, pgpy)
        elif d['t'] == 'heldpub':
            _heldpub(ctx, d, pgpy)
        elif d['t'] == 'lapsed_binding':
            _lapsed_binding(ctx, d, pgpy)
        elif d['t'] == 'reprotected':
            _reprotected(ctx, d, pgpy)
        else:
            _gpg(ctx, d, pgpy)


def _check_key(ctx, pgpy, k, info, shape, r):
    ctx.count('shapes')
    where = {'shape': shape}
    src_tree_all = keyshape.obj_tree(k, exportable_only=False)
    src_tree = keyshape.obj_tree(k)
    good0, bad0, st0 = verified_sigs(pgpy, k.pubkey)
    if bad0:
        ctx.fail('freshly-built-key-has-bad-self-signature', dict(where, n=len(bad0)))
    for half, obj in (('private', k), ('public', k.pubkey)):
        blob = bytes(obj)
        # (1) the export, read by the reference, is the tree of the source object restricted to exportable signatures
        try:
            bt = keyshape.blob_tree(blob)
        except (wire.Malformed, grammar.NotGrammatical) as e:
            ctx.fail('export-not-a-transferable-key', dict(where, half=half, err=str(e)))
            continue
        if len(bt) != 1:
            ctx.fail('export-splits-into-several-keys', dict(where, half=half, n=len(bt)))
            continue
        st = keyshape.obj_tree(obj)
        dd = keyshape.tree_diff(bt[0], st)
        if dd:
            ctx.fail('export-differs-from-object-structure', dict(where, half=half, differs=dd))
        allsigs = set(x for u in bt[0]['uids'] for x in u[2]) | set(bt[0]['direct']) | set(x for s in bt[0]['subkeys'] for x in s[2])
        for nb in info['nonexportable']:
            ctx.count('nonexportable_seen')
            if wire.split(nb)[0].body in allsigs:
                ctx.fail('non-exportable-signature-exported', dict(where, half=half))
        for eb in info['exportable']:
            if wire.split(eb)[0].body not in allsigs:
                ctx.fail('exportable-signature-dropped', dict(where, half=half))
        nver, nrej = selfsig_report(blob)
        if nrej:
            ctx.fail('reference-rejects-self-signature-in-export', dict(where, half=half, rejected=nrej))
        # (2) import (binary and armor), two passes
        for form, data in (('binary', blob), ('armor', str(obj))):
            ctx.count('passes_compared')
            ctx.count('evaluations')
            try:
                k2, others = pgpy.PGPKey.from_blob(data)
            except Exception as e:
                ctx.fail('own-export-not-importable', dict(where, half=half, form=form, err=repr(e)[:200]))
                continue
            extra = [o for o in others.values() if o is not k2]      # from_blob lists the first key among the others too
            if extra:
                ctx.fail('single-key-import-yields-extra-keys', dict(where, half=half, n=len(extra)))
            if str(k2.fingerprint) != str(k.fingerprint) or k2.is_public != obj.is_public:
                ctx.fail('fingerprint-or-half-changes', dict(where, half=half, form=form))
            if sorted(str(x.fingerprint) for x in k2.subkeys.values()) != sorted(str(x.fingerprint) for x in obj.subkeys.values()) or sorted(k2.subkeys) != sorted(obj.subkeys):
                ctx.fail('subkey-fingerprints-change', dict(where, half=half, form=form, before=sorted(str(x.fingerprint) for x in obj.subkeys.values()),
                                                           after=sorted(str(x.fingerprint) for x in k2.subkeys.values())))
            ref_fprs = sorted(RK.fingerprint(RK.parse_pub(p_.body)['pubbody']).hex().upper() for p_ in wire.split(blob) if p_.tag in (5, 6, 7, 14))
            if sorted([str(k2.fingerprint)] + [str(x.fingerprint) for x in k2.subkeys.values()]) != ref_fprs:
                ctx.fail('fingerprints-differ-from-those-of-the-exported-packets', dict(where, half=half, form=form, exported=ref_fprs))
            t2 = keyshape.obj_tree(k2)
            dd = keyshape.tree_diff(bt[0], t2)
            if dd:
                ctx.fail('imported-structure-differs-from-export', dict(where, half=half, form=form, differs=dd))
            out2 = bytes(k2)
            if out2 != blob:
                try:
                    same = keyshape.blob_tree(out2) == bt
                except Exception:
                    same = False
                if not same:
                    ctx.fail('second-export-differs', dict(where, half=half, form=form, lens=[len(blob), len(out2)]))
                else:
                    ctx.observe('second_export_reordered_but_same_tree')
            # (3) what verified before verifies after
            pk2 = k2 if k2.is_public else k2.pubkey
            good2, bad2, st2 = verified_sigs(pgpy, pk2)
            ctx.count('signatures_reverified', len(good2) + len(bad2))
            if bad2 or st2 != 'ok':
                ctx.fail('signature-fails-after-import', dict(where, half=half, form=form, bad=len(bad2), status=st2))
            lost = {g for g in good0 if g in allsigs} - good2
            if lost:
                ctx.fail('verified-signature-not-verified-after-import', dict(where, half=half, form=form, n=len(lost)))
        # (4) copy exports identically
        ctx.count('copies')
        cp = copy.copy(obj)
        if bytes(cp) != blob:
            ctx.fail('copy-exports-differently', dict(where, half=half, lens=[len(blob), len(bytes(cp))]))
    # (4b) the same key with "not exportable" / "expired" / "not revocable" subpackets appended to the UNSIGNED area of every signature (anyone can
    # do that to a key in transit): nothing is marked by that - every signature is still exported, attached where it was, and verifies
    from .. import unhashed
    pub_blob0 = bytes(k.pubkey)
    for label, extra in (('not-exportable', unhashed.NOT_EXPORTABLE), ('several', unhashed.NOT_EXPORTABLE + unhashed.sp(3, (1).to_bytes(4, 'big')) + unhashed.sp(7, b'\x00'))):
        ublob, nsig_u = unhashed.inject(pub_blob0, set(range(0x10, 0x41)), extra)
        ctx.count('passes_compared')
        ctx.count('unsigned_additions')
        try:
            ku = pgpy.PGPKey.from_blob(ublob)[0]
            want_u = keyshape.blob_tree(ublob)[0]
            got_u = keyshape.blob_tree(bytes(ku))[0]
            dd = keyshape.tree_diff(want_u, got_u)
            if dd:
                ctx.fail('signature-dropped-because-of-an-unsigned-subpacket', dict(where, addition=label, differs=dd, signatures_touched=nsig_u))
            g_, b_, s_ = verified_sigs(pgpy, ku)
            if b_:
                ctx.fail('signature-fails-after-import', dict(where, addition=label, bad=len(b_)))
        except Exception as e:
            ctx.fail('own-export-not-importable', dict(where, addition=label, err=repr(e)[:160]))
    # (5) foreign framings of the same key: old-format headers where possible, trust packets interleaved
    pub_blob = bytes(k.pubkey)
    pk = wire.split(pub_blob)
    reframed = b''
    for p in pk:
        hdr = wire.old_hdr(p.tag, len(p.body)) if p.tag < 16 and r.random() < 0.7 else wire.new_hdr(p.tag, len(p.body))
        reframed += hdr + p.body
        if r.random() < 0.6:
            reframed += wire.old_hdr(12, 2) + bytes([r.choice([0, 3, 5, 6]), 0])
    ctx.count('passes_compared')
    ctx.count('evaluations')
    try:
        kf = pgpy.PGPKey.from_blob(reframed)[0]
        dd = keyshape.tree_diff(keyshape.blob_tree(pub_blob)[0], keyshape.obj_tree(kf))
        if dd:
            ctx.fail('foreign-framing-imports-to-different-structure', dict(where, differs=dd))
        g, b, s_ = verified_sigs(pgpy, kf)
        if b:
            ctx.fail('signature-fails-after-import-of-foreign-framing', dict(where, bad=len(b)))
        ctx.count('foreign_framings')
    except Exception as e:
        ctx.fail('foreign-framing-not-importable', dict(where, err=repr(e)[:200]))
    ncomp = sum(1 for u in src_tree['uids'] if u[2]) + sum(1 for s in src_tree['subkeys'] if s[2])
    if ncomp >= 2 or info['nonexportable'] or shape.get('same_second'):
        ctx.nontrivial(shape)
    if len(ctx.samples) < 3:
        ctx.sample({'shape': shape, 'export_packets': [p.tag for p in pk]})


def _concat(ctx, d, pgpy):
    r = ctx.rng('concat', d['i'], d['seed'])
    n = r.randint(2, 4)
    keys = []
    used = set()
    while len(keys) < n:
        shape = keyshape.random_shape(r, rich=False)
        if shape['primary'] in used:
            continue
        used.add(shape['primary'])
        keys.append(keyshape.build(shape)[0])
    mode = r.choice(['public', 'private', 'mixed', 'mixed'])
    public = mode == 'public'
    if mode == 'mixed':
        # public and private keys in one blob (a keyring dump), in any order, and both halves of one key somewhere in it
        objs = [k.pubkey if r.random() < 0.5 else k for k in keys]
        j = r.randrange(len(keys))
        twin = keys[j] if objs[j].is_public else keys[j].pubkey
        objs.insert(r.randrange(j + 1, len(objs) + 1) if r.random() < 0.7 else r.randrange(0, j + 1), twin)
        n = len(objs)
        ctx.count('mixed_concatenations')
    else:
        objs = [k.pubkey if public else k for k in keys]
    blobs = [bytes(o) for o in objs]
    cat = b''.join(blobs)
    ctx.count('concatenations')
    ctx.count('evaluations')
    for form, data in (('binary', cat), ('armor', armor.armor('PUBLIC KEY BLOCK' if public else 'PRIVATE KEY BLOCK', cat))):
        try:
            first, others = pgpy.PGPKey.from_blob(data)
        except Exception as e:
            ctx.fail('concatenated-keys-not-importable', {'n': n, 'form': form, 'err': repr(e)[:200]})
            continue
        got = [first] + [o for o in others.values() if o is not first]
        if len(got) != n:
            ctx.fail('concatenated-keys-mis-split', {'n': n, 'form': form, 'got': len(got)})
            continue
        gm = {(str(g.fingerprint), g.is_public): g for g in got}
        for o, b in zip(objs, blobs):
            g = gm.get((str(o.fingerprint), o.is_public))
            if g is None:
                ctx.fail('concatenated-key-missing', {'n': n, 'form': form})
                continue
            dd = keyshape.tree_diff(keyshape.blob_tree(b)[0], keyshape.obj_tree(g))
            if dd:
                ctx.fail('concatenated-key-structure-differs', {'n': n, 'form': form, 'differs': dd})
    ctx.nontrivial({'concat': d['i'], 'n': n})


def _lapsed_binding(ctx, d, pgpy):
    """a subkey whose only binding signature carries a signature expiration time that has passed (and one with a lapsed and a current binding):
    export and import keep the subkey and its signatures, in both halves and both forms"""
    from datetime import datetime, timezone, timedelta
    from pgpy.constants import KeyFlags
    prim = ['ed25519_0', 'rsa1024_0', 'ecdsa_p256_0'][d['i'] % 3]
    k = pool.pgpy_key(prim, uid='Lapsed Binding %d' % d['i'], fresh=True)
    long_ago = datetime.now(timezone.utc) - timedelta(days=30 + d['i'])
    subs = [('cv25519_1', {KeyFlags.EncryptCommunications}), ('ed25519_3', {KeyFlags.Sign})]
    for n_, (sn, us) in enumerate(subs):
        k.add_subkey(pool.pgpy_bare(sn), usage=us, created=long_ago, expires=timedelta(days=7))
    if d['i'] % 2:
        # the second subkey also gets a current binding next to the lapsed one
        sk = list(k.subkeys.values())[1]
        sk |= k.bind(sk, usage={KeyFlags.Sign})
    want_subs = sorted(str(x.fingerprint) for x in k.subkeys.values())
    for half, obj in (('private', k), ('public', k.pubkey)):
        for form, data in (('binary', bytes(obj)), ('armor', str(obj))):
            ctx.count('lapsed_binding_exports')
            ctx.count('passes_compared')
            ctx.count('evaluations')
            where = {'case': d, 'half': half, 'form': form}
            try:
                bt = keyshape.blob_tree(bytes(obj))[0]
                k2 = pgpy.PGPKey.from_blob(data)[0]
            except Exception as e:
                ctx.fail('own-export-not-importable', dict(where, err=repr(e)[:160]))
                continue
            got = sorted(str(x.fingerprint) for x in k2.subkeys.values())
            if got != want_subs or len(bt['subkeys']) != len(want_subs):
                ctx.fail('subkey-fingerprints-change', dict(where, before=want_subs, after=got, exported=len(bt['subkeys'])))
                continue
            dd = keyshape.tree_diff(bt, keyshape.obj_tree(k2))
            if dd:
                ctx.fail('imported-structure-differs-from-export', dict(where, differs=dd))
            if bytes(k2) != bytes(obj):
                try:
                    same = keyshape.blob_tree(bytes(k2))[0] == bt
                except Exception:
                    same = False
                if not same:
                    ctx.fail('second-export-differs', dict(where, lens=[len(bytes(obj)), len(bytes(k2))]))
    ctx.nontrivial(d)


def _reprotected(ctx, d, pgpy):
    """protect, then change the protection once or twice (unlock + protect with another cipher / hash / passphrase), then export the private key
    binary and armored and import it: same structure, every signature verifies, the last passphrase opens it"""
    from pgpy.constants import SymmetricKeyAlgorithm as S, HashAlgorithm as H
    r = ctx.rng('reprotected', d['i'], d['seed'])
    shape = keyshape.random_shape(r, rich=False)
    k, info = keyshape.build(shape)
    seq = [(S.AES256, H.SHA256), (S.CAST5, H.SHA1), (S.TripleDES, H.SHA512), (S.AES128, H.SHA1), (S.Blowfish, H.SHA256), (S.Camellia192, H.SHA384), (S.AES192, H.SHA224)]
    steps = [seq[(d['i'] + j * 3) % len(seq)] for j in range(2 + d['i'] % 2)]
    pw = None
    want = keyshape.obj_tree(k.pubkey)
    for j, (c_, h_) in enumerate(steps):
        npw = 'reprotect %d' % j
        if pw is None:
            k.protect(npw, c_, h_)
        else:
            with k.unlock(pw):
                k.protect(npw, c_, h_)
        pw = npw
        ctx.count('reprotected_exports')
        ctx.count('passes_compared')
        ctx.count('evaluations')
        where = {'shape': shape, 'protections': [(str(a), str(b)) for a, b in steps[:j + 1]]}
        for form, data in (('binary', bytes(k)), ('armor', str(k))):
            try:
                bt = keyshape.blob_tree(bytes(k))
                k2 = pgpy.PGPKey.from_blob(data)[0]
            except Exception as e:
                ctx.fail('own-export-not-importable', dict(where, form=form, err=repr(e)[:160]))
                continue
            if len(bt) != 1:
                ctx.fail('export-splits-into-several-keys', dict(where, n=len(bt)))
                continue
            dd = keyshape.tree_diff(keyshape.obj_tree(k2.pubkey), want)
            if dd or str(k2.fingerprint) != str(k.fingerprint):
                ctx.fail('imported-structure-differs-from-export', dict(where, form=form, differs=dd))
                continue
            g2, b2, st2 = verified_sigs(pgpy, k2.pubkey)
            if b2:
                ctx.fail('signature-fails-after-import', dict(where, form=form, bad=len(b2)))
            try:
                with k2.unlock(pw):
                    if not k2.is_unlocked:
                        ctx.fail('reprotected-key-does-not-open-after-import', dict(where, form=form))
            except Exception as e:
                ctx.fail('reprotected-key-does-not-open-after-import', dict(where, form=form, err=repr(e)[:120]))
    ctx.nontrivial({'protections': len(steps)})


def _heldpub(ctx, d, pgpy):
    """The caller takes key.pubkey early (to publish it, say) and keeps the object; the key then grows through every public way of growing
    (add_uid, add_subkey, |= of a third-party certification on the identity, |= on the key, del_uid, revoke).  What is exported as the public
    key afterwards - key.pubkey asked again - carries all of it: compared, after export and import, with the reference's public projection of
    the private export."""
    from pgpy.constants import KeyFlags, SignatureType
    from . import C07
    from .. import sigwork
    r = ctx.rng('heldpub', d['i'], d['seed'])
    shape = keyshape.random_shape(r, rich=False)
    k, info = keyshape.build(shape)
    if d.get('i', 0) % 3 == 2:
        k = pgpy.PGPKey.from_blob(bytes(k))[0]          # a loaded key rather than a built one
    other = sigwork.target_key()
    kept = []
    first = k.pubkey
    if d['keep'] != 'dropped':
        kept.append(first)
    del first
    pool_subs = ['ed25519_3', 'cv25519_2', 'ecdsa_p384_1']
    ops = [r.choice(['add_subkey', 'third_party', 'add_uid', 'del_uid', 'revoke_uid', 'direct', 'key_or_sig']) for _ in range(r.randint(1, 5))]
    if d['i'] < 3:
        ops = [['add_subkey'], ['third_party'], ['add_uid', 'del_uid']][d['i']]
    n = 0
    for op in ops:
        n += 1
        if op == 'add_subkey' and pool_subs:
            sn = pool_subs.pop()
            k.add_subkey(pool.pgpy_bare(sn), usage={KeyFlags.EncryptCommunications} if pool.mat(sn)['alg'] == 18 else {KeyFlags.Sign})
        elif op == 'third_party':
            u = k.userids[0]
            u |= other.certify(u, SignatureType.Casual_Cert)
        elif op == 'add_uid':
            k.add_uid(pgpy.PGPUID.new('Later %d' % n, email='later%d@example.org' % n), usage={KeyFlags.Sign})
        elif op == 'del_uid' and len(k.userids) > 1:
            k.del_uid(k.userids[-1].name)
        elif op == 'revoke_uid' and len(k.userids) > 1:
            u = k.userids[-1]
            u |= k.revoke(u)
        elif op == 'direct':
            k |= k.certify(k)
        elif op == 'key_or_sig':
            k |= k.revoke(k)
        if d['keep'] == 'list':
            kept.append(k.pubkey)
        # ---- the public export now
        ctx.count('held_public_exports')
        ctx.count('evaluations')
        ctx.count('passes_compared')
        want = C07.projection(bytes(k))
        for form in ('binary', 'armor'):
            pubobj = k.pubkey
            data = bytes(pubobj) if form == 'binary' else str(pubobj)
            where = {'case': d, 'ops_so_far': ops[:n], 'form': form}
            try:
                k2 = pgpy.PGPKey.from_blob(data)[0]
                got, bad = C07.tree_of_public(bytes(k2))
            except Exception as e:
                ctx.fail('own-export-not-importable', dict(where, err=repr(e)[:160]))
                continue
            dd = C07.diff(got, want)
            if dd:
                ctx.fail('public-export-lacks-what-the-key-has', dict(where, differs=dd, earlier_public_objects_kept=len(kept)))
            g2, b2, st2 = verified_sigs(pgpy, k2)
            if b2:
                ctx.fail('signature-fails-after-import', dict(where, bad=len(b2)))
    ctx.nontrivial({'ops': ops, 'keep': d['keep']})


def _generated(ctx, d, pgpy):
    """keys PGPy generates itself, with creation times given the ways a caller can give them (none, UTC, other zones, sub-second), primary and subkeys"""
    from datetime import datetime, timezone, timedelta
    from pgpy.constants import PubKeyAlgorithm as A, EllipticCurveOID as C, KeyFlags
    specs = {'ed': (A.EdDSA, C.Ed25519), 'p256': (A.ECDSA, C.NIST_P256), 'k256': (A.ECDSA, C.SECP256K1), 'p521': (A.ECDSA, C.NIST_P521)}
    times = {'none': None, 'utc': datetime(2020, 2, 29, 23, 59, 59, tzinfo=timezone.utc), 'plus0530': datetime(2021, 7, 15, 12, 0, 0, tzinfo=timezone(timedelta(hours=5, minutes=30))),
             'minus0800': datetime(2019, 11, 3, 1, 30, 0, tzinfo=timezone(timedelta(hours=-8))), 'micro': datetime(2022, 1, 1, 0, 0, 0, 999999, tzinfo=timezone.utc),
             'plus14': datetime(2000, 1, 1, 0, 0, 1, tzinfo=timezone(timedelta(hours=14)))}
    r = ctx.rng('generated', d['alg'], d['time'])
    kw = {} if times[d['time']] is None else {'created': times[d['time']]}
    k = pgpy.PGPKey.new(*specs[d['alg']], **kw)
    k.add_uid(pgpy.PGPUID.new('Generated %s %s' % (d['alg'], d['time']), email='g@example.org'), usage={KeyFlags.Certify, KeyFlags.Sign})
    sub = pgpy.PGPKey.new(A.ECDH, C.Curve25519, **({} if times[d['subtime']] is None else {'created': times[d['subtime']]}))
    k.add_subkey(sub, usage={KeyFlags.EncryptCommunications, KeyFlags.EncryptStorage})
    sub2 = pgpy.PGPKey.new(A.EdDSA, C.Ed25519, **kw)
    k.add_subkey(sub2, usage={KeyFlags.Sign})
    ctx.count('generated_keys')
    _check_key(ctx, pgpy, k, {'nonexportable': [], 'exportable': []}, {'generated': d['alg'], 'created': d['time'], 'subkey_created': d['subtime']}, r)


def _foreignenc(ctx, d, pgpy):
    prot = {'usage': 254, 'cipher': 9, 's2k': (3, 8, b'saltsalt', 0x60), 'iv': bytes(range(16)), 'passphrase': b'foreign pw'} if d['protect'] else None
    # the first identity as other implementations write it: UTF-8, legacy Latin-1 octets, or octets that are no text at all
    uid = {'utf8': 'Zo\u00eb \u65e5\u672c <zoe@example.org>'.encode('utf-8'), 'latin1': b'Jos\xe9 Mu\xf1oz <jose@example.org>', 'notext': b'\xff\xfe\x00 raw <r@example.org>'}[d.get('uid', 'utf8')]
    blob, info = foreignkey.build(d['primary'], d['sub'], d['style'], uid=uid, extra_uid=b'Second Identity <second@example.org>', protect=prot)
    want = keyshape.blob_tree(blob)[0]
    nsig = len(info['sig_bodies']) + (1 if d['sub'] and pool.mat(d['sub'])['alg'] != 18 else 0)
    ctx.count('foreign_encoded_keys')
    where = {'style': d['style'], 'primary': d['primary'], 'sub': d['sub'], 'protected': d['protect']}
    k = pgpy.PGPKey.from_blob(blob)[0]
    for gen in range(3):
        ctx.count('evaluations')
        ctx.count('passes_compared')
        dd = keyshape.tree_diff(want, keyshape.obj_tree(k))
        if dd:
            ctx.fail('imported-structure-differs-from-export', dict(where, generation=gen, differs=dd, what='signature octets as received'))
        pk = k if k.is_public else k.pubkey
        gd, bd, st = verified_sigs(pgpy, pk)
        if bd or st != 'ok' or len(gd) < nsig:
            ctx.fail('signature-fails-after-import', dict(where, generation=gen, good=len(gd), bad=len(bd), expected=nsig, status=st))
        else:
            ctx.count('signatures_reverified', len(gd))
        for form, data, kind in (('binary', bytes(k), 'same'), ('armor', str(k), 'same'), ('public', bytes(pk), 'public'), ('copy', bytes(copy.copy(k)), 'same')):
            try:
                k2 = pgpy.PGPKey.from_blob(data)[0]
            except Exception as e:
                ctx.fail('own-export-not-importable', dict(where, form=form, generation=gen, err=repr(e)[:160]))
                continue
            ctx.count('copies' if form == 'copy' else 'passes_compared')
            t2 = keyshape.blob_tree(bytes(k2))[0]
            ref = want if kind == 'same' else keyshape.blob_tree(bytes(pk))[0]
            if kind == 'public':
                # public projection: same signatures on the same components
                if [x[2] for x in t2['uids']] != [x[2] for x in want['uids']] or [x[2] for x in t2['subkeys']] != [x[2] for x in want['subkeys']]:
                    ctx.fail('exported-structure-differs', dict(where, form=form, generation=gen, what='signatures of the public export'))
            elif t2 != ref:
                ctx.fail('copy-exports-differently' if form == 'copy' else 'exported-structure-differs', dict(where, form=form, generation=gen, differs=keyshape.tree_diff(ref, t2)))
        k = pgpy.PGPKey.from_blob(bytes(k))[0]
    ctx.nontrivial(d)


def _gpg(ctx, d, pgpy):
    r = ctx.rng('gpg', d['seed'])
    with gpgx.Home() as g:
        for i in range(d['n']):
            shape = keyshape.random_shape(r, bare=True)
            shape['key_revoked'] = False
            k, info = keyshape.build(shape)
            ok, err = g.import_key(bytes(k))
            if not ok:
                ctx.observe('gpg_import_failed')
                continue
            fpr = str(k.fingerprint)
            for secret in (False, True):
                exp = g.export(fpr, secret)
                if not exp:
                    ctx.observe('gpg_export_failed')
                    continue
                ctx.count('evaluations')
                ctx.count('gpg_exports_imported')
                try:
                    k2 = pgpy.PGPKey.from_blob(exp)[0]
                    dd = keyshape.tree_diff(keyshape.blob_tree(exp)[0], keyshape.obj_tree(k2))
                    if dd:
                        ctx.fail('gpg-export-imports-to-different-structure', {'shape': shape, 'secret': secret, 'differs': dd})
                    pk2 = k2 if k2.is_public else k2.pubkey
                    gd, bd, s_ = verified_sigs(pgpy, pk2)
                    if bd:
                        ctx.fail('signature-fails-after-import-of-gpg-export', {'shape': shape, 'bad': len(bd)})
                    b2 = bytes(k2)
                    b3 = bytes(pgpy.PGPKey.from_blob(b2)[0])
                    if b3 != b2 and keyshape.blob_tree(b3) != keyshape.blob_tree(b2):
                        ctx.fail('gpg-export-second-pass-differs', {'shape': shape})
                except Exception as e:
                    ctx.fail('gpg-export-not-importable', {'shape': shape, 'secret': secret, 'err': repr(e)[:200]})
    ctx.nontrivial(d)
