"""C15 -- key-management histories keep a key self-consistent.

History monitor with a sequential certificate model (per identity: ordered self-signature parameter records, revocation state; per subkey:
bindings, revocation; key revocation; removed identities), stepped with the same operations as the real key.  After *every* step:
every self-signature, binding (with embedded cross-signature for signing-capable subkeys) and revocation verifies under the public half
(PGPKey.verify and the reference verifier over the export), also after export -> import; effective flags / preferences / primary mark /
expiry of every identity equal those of its most recent self-certification per the model; removed identities are gone from the export;
revocations are reported for exactly the revoked components; a freshly derived public twin equals the public projection.
Bounded-exhaustive over short histories plus random deep walks interleaved over three keys.
"""
import copy
import itertools
import warnings
from datetime import datetime, timezone, timedelta

from ..core import hx
from ..ref import wire, keys as RK, sig as RS, grammar
from .. import pool, sigwork, keyshape
from ..oracle_selftest import verify_key_blob
from . import C07

LEVEL = 'exploration'
RULE = ('case = one history (operation sequence) from the bounded-exhaustive enumeration or a random walk over three keys; one evaluation per step at which all '
        'invariants are checked; non-trivial history = contains a re-certification, a revocation or a removal after an addition; distinct = distinct histories; '
        'the evidence also reports distinct abstract model states visited')
ASSUMPTIONS = ['two self-signatures made in the same second: either may count as the most recent', 'a certification revocation is not a self-certification: the effective '
               'parameters of a revoked identity are not compared']
MIN_COUNTERS = {'quick': {'histories': 600, 'steps_checked': 1200, 'selfsigs_verified_by_reference': 3000, 'effective_params_compared': 2500, 'reimports': 1200, 'walks_starting_from_foreign_key': 5},
                'thorough': {'histories': 6000}}
BUDGET = {'quick': (600, 1500), 'thorough': (2400, 3600)}
TECHNIQUE = 'runtime monitoring: history monitor against a sequential certificate model + reference verification of every export; bounded-exhaustive short histories + random deep walks'

ALPHA = ['add_uid', 'add_subkey', 'recertify', 'third_party', 'revoke_uid', 'revoke_subkey', 'revoke_key', 'del_uid', 'add_revoker']
EXTRA = ['add_ua', 'readd_uid', 'protect', 'unlock_use', 'pubkey', 'copy', 'export_import', 'same_second_recert', 'direct']
FLAGS = [['Sign'], ['Certify', 'Sign'], ['Certify'], ['Sign', 'Authentication'], ['EncryptCommunications', 'Sign']]
T0 = datetime(2019, 6, 1, tzinfo=timezone.utc)


def cases(tier, seed):
    cs = []
    L = 3 if tier == 'quick' else 4
    hist = [list(h) for l in range(1, L + 1) for h in itertools.product(range(len(ALPHA)), repeat=l) if l == L]
    B = 24
    for i in range(0, len(hist), B):
        cs.append({'t': 'exhaustive', 'hists': hist[i:i + B], 'primary': 'ed25519_0'})
    for w in range(24 if tier == 'quick' else 2500):
        cs.append({'t': 'walk', 'w': w, 'seed': seed, 'n': 18})
    return cs


class Model(object):
    def __init__(self, name):
        self.name = name
        self.uids = {}       # text -> {'sigs': [record], 'revoked': bool}
        self.uas = 0
        self.subs = {}       # material name -> {'bindings': [flags], 'revoked': bool, 'signing': bool}
        self.key_revoked = False
        self.direct = 0        # direct-key self-signatures (0x1F) issued so far, incl. designated-revoker ones
        self.revokers = []     # (fingerprint of the designated revoker, sensitive?)
        self.removed = []
        self.protected = None
        self.clock = 0

    def tick(self, same=False):
        if same:
            self.tied = True      # two signatures of this key now share a creation second: their relative order is not determined
        if not same:
            self.clock += 60
        return T0 + timedelta(seconds=self.clock)

    def state(self):
        return (tuple(sorted((t, len(u['sigs']), u['revoked']) for t, u in self.uids.items())), self.uas,
                tuple(sorted((n, len(s['bindings']), s['revoked']) for n, s in self.subs.items())), self.key_revoked, bool(self.protected), len(self.removed))


class Actor(object):
    """one key + its model; operations mirror PGPy calls and model updates"""

    def __init__(self, pgpy, primary, idx=0, foreign=None):
        from pgpy.constants import KeyFlags, HashAlgorithm
        self.pgpy = pgpy
        self.idx = idx
        self.m = Model(primary)
        self.spare_subs = [s for s in ['cv25519_%d' % idx, 'rsa2048_1', 'ed25519_3', 'ecdsa_p256_1', 'ecdh_p256_0'] if s != primary]
        self.nuid = 0
        if foreign:
            # the history starts from a key another implementation made (reference encoder/signer, legal non-PGPy encodings)
            from .. import foreignkey
            sub = self.spare_subs.pop(0)
            self.nuid = 1
            text = 'Key%d User1' % idx
            blob, info = foreignkey.build(primary, sub, foreign, uid=('%s <u1@k%d.example>' % (text, idx)).encode(), created=None)
            self.k = pgpy.PGPKey.from_blob(blob)[0]
            self.m.uids[text] = {'sigs': [self.rec(['Certify', 'Sign'], ['SHA256', 'SHA512'], True, None, datetime.fromtimestamp(pool.mat(primary)['created'] + 10, timezone.utc))], 'revoked': False}
            sm = pool.mat(sub)
            self.m.subs[sub] = {'bindings': [['foreign']], 'revoked': False, 'signing': sm['alg'] != 18}
            return
        self.k = pool.pgpy_bare(primary)
        self.do_add_uid(first=True)

    # -- helpers
    def unlocked(self):
        import contextlib
        return self.k.unlock(self.m.protected) if self.m.protected else contextlib.nullcontext()

    def rec(self, flags, hashes, primary, kexp, created):
        return {'flags': sorted(flags), 'hashes': hashes, 'primary': primary, 'kexp': kexp, 'created': created}

    def do_add_uid(self, first=False, text=None):
        from pgpy.constants import KeyFlags, HashAlgorithm
        pg = self.pgpy
        self.nuid += 1
        # names of one key are nested: each is a proper prefix (and so a substring) of the next ones, and so are the e-mail addresses
        text = text or ('Key%d User%d' % (self.idx, self.nuid) if self.nuid == 1 else 'Key%d User1%s' % (self.idx, 'x' * (self.nuid - 1)))
        flags = FLAGS[self.nuid % len(FLAGS)] if not first else ['Certify', 'Sign']
        hashes = [['SHA256'], ['SHA512', 'SHA256'], ['SHA384']][self.nuid % 3]
        primary = [None, True, False][self.nuid % 3]
        kexp = [None, 86400 * 3650, 86400 * 5000][self.nuid % 3]
        created = self.m.tick()
        kw = {'usage': {getattr(KeyFlags, f) for f in flags}, 'hashes': [getattr(HashAlgorithm, h) for h in hashes], 'created': created}
        if primary is not None:
            kw['primary'] = primary
        if kexp:
            kw['key_expiration'] = timedelta(seconds=kexp)
        if self.nuid % 2 == 0:
            # subpackets of 192 octets and more (two-octet subpacket lengths) in signatures made in-process
            kw['keyserver'] = 'hkps://keys.example.org/' + 'k' * (170 + 20 * self.nuid)
            kw['policy_uri'] = 'https://example.org/policy/' + 'p' * 300
        with self.unlocked():
            # the comment of every identity quotes the names and addresses of all the others: only an exact match of a whole field selects an identity
            aka = 'aka ' + ', '.join('Key%d User1%s %su1@k%d.example' % (self.idx, 'x' * j, 'x' * j, self.idx) for j in range(6))
            self.k.add_uid(pg.PGPUID.new(text, comment=aka, email='%su1@k%d.example' % ('x' * (self.nuid - 1), self.idx)), **kw)
        self.m.uids[text] = {'sigs': [self.rec(flags, hashes, primary, kexp, created)], 'revoked': False}

    def uid_obj(self, text):
        return next(u for u in self.k.userids if u.name == text)

    def step(self, op, others, r=None):
        """-> True if the operation applied"""
        from pgpy.constants import KeyFlags, HashAlgorithm, SignatureType, SymmetricKeyAlgorithm
        pg, k, m = self.pgpy, self.k, self.m
        live = [t for t, u in m.uids.items()]
        pick = (lambda lst: lst[(m.clock // 60) % len(lst)]) if r is None else r.choice
        with self.unlocked():
            if op == 'add_uid':
                self.do_add_uid()
            elif op == 'readd_uid':
                if not m.removed:
                    return False
                self.do_add_uid(text=m.removed.pop())
            elif op == 'add_ua':
                if m.uas >= 2:
                    return False
                k.add_uid(pg.PGPUID.new(bytearray(sigwork.JPEG + bytes([m.uas]))), created=m.tick())
                m.uas += 1
            elif op == 'add_subkey':
                if not self.spare_subs:
                    return False
                sn = self.spare_subs.pop(0)
                sm = pool.mat(sn)
                # every other signing subkey is also allowed to certify: certifications, revocations and new identities asked of the KEY are still the key's own
                fl = ['EncryptCommunications'] if sm['alg'] == 18 else (['Sign', 'Certify'] if sum(1 for x in m.subs.values() if x['signing']) % 2 == 0 else ['Sign'])
                sk = pool.pgpy_bare(sn)
                if m.protected:
                    sk.protect(m.protected, SymmetricKeyAlgorithm.AES128, HashAlgorithm.SHA1)
                    with sk.unlock(m.protected):
                        k.add_subkey(sk, usage={getattr(KeyFlags, f) for f in fl}, created=m.tick())
                else:
                    k.add_subkey(sk, usage={getattr(KeyFlags, f) for f in fl}, created=m.tick())
                m.subs[sn] = {'bindings': [fl], 'revoked': False, 'signing': sm['alg'] != 18}
            elif op in ('recertify', 'same_second_recert'):
                if not live:
                    return False
                t = pick(live)
                u = self.uid_obj(t)
                flags = FLAGS[(len(m.uids[t]['sigs']) + 2) % len(FLAGS)]
                hashes = ['SHA512']
                created = m.tick(same=(op == 'same_second_recert'))
                # a self-certification of any of the four levels is the identity's self-signature
                level = [SignatureType.Positive_Cert, SignatureType.Persona_Cert, SignatureType.Generic_Cert, SignatureType.Casual_Cert][(len(m.uids[t]['sigs']) + (m.clock // 60)) % 4]
                u |= k.certify(u, level, usage={getattr(KeyFlags, f) for f in flags}, hashes=[HashAlgorithm.SHA512], primary=True, created=created)
                m.uids[t]['sigs'].append(self.rec(flags, hashes, True, None, created))
            elif op == 'third_party':
                if not live or not others:
                    return False
                t = pick(live)
                u = self.uid_obj(t)
                o = pick(others)
                with o.unlocked():
                    u |= o.k.certify(u, SignatureType.Casual_Cert, created=m.tick())
            elif op == 'revoke_uid':
                cand = [t for t in live if not m.uids[t]['revoked']]
                if len(cand) < 2:
                    return False
                t = cand[len(cand) // 2] if r is None else r.choice(cand)        # any of them; in the enumerated histories the one in the middle
                u = self.uid_obj(t)
                u |= k.revoke(u, created=m.tick())
                m.uids[t]['revoked'] = True
            elif op == 'revoke_subkey':
                cand = [n for n, s in m.subs.items() if not s['revoked']]
                if not cand:
                    return False
                sk = next(s for s in k.subkeys.values() if str(s.fingerprint) == RK.fpr_of(pool.mat(cand[0])).hex().upper())
                sk |= k.revoke(sk, created=m.tick())
                m.subs[cand[0]]['revoked'] = True
            elif op == 'revoke_key':
                if m.key_revoked:
                    return False
                k |= k.revoke(k, created=m.tick())
                m.key_revoked = True
            elif op == 'direct':
                k |= k.certify(k, created=m.tick())
                m.direct += 1
            elif op == 'add_revoker':
                if not others:
                    return False
                o = pick(others)
                sens = (m.clock // 60) % 2 == 1
                k |= k.revoker(o.k.pubkey, sensitive=sens, created=m.tick())
                m.direct += 1
                m.revokers.append((str(o.k.fingerprint), sens))
            elif op == 'del_uid':
                if len(live) < 2:
                    return False
                # any of the identities, named the way a caller would name it (names and addresses of one key are nested strings)
                t = pick(live)
                k.del_uid(t if (m.clock // 60) % 3 else next(u.email for u in k.userids if u.name == t))
                del m.uids[t]
                m.removed.append(t)
            elif op == 'protect':
                if m.protected:
                    return False
                m.protected = 'pw%d' % self.idx
                k.protect(m.protected, SymmetricKeyAlgorithm.AES128, HashAlgorithm.SHA1)
            elif op == 'unlock_use':
                if not m.protected:
                    return False
                from pgpy.errors import PGPError
                try:
                    k.sign('inside')
                except PGPError as e:
                    # the identity whose flags count now (after revocations / removals) may not grant Sign: a policy refusal, judged by C16
                    if 'usage flag' not in str(e):
                        raise
                    return False
            elif op == 'pubkey':
                self.held = k.pubkey
            elif op == 'copy':
                self.k = copy.copy(k)
            elif op == 'export_import':
                self.k = pg.PGPKey.from_blob(bytes(k))[0]
            else:
                raise ValueError(op)
        return True


def check_actor(ctx, a, where):
    pg, k, m = a.pgpy, a.k, a.m
    ctx.count('steps_checked')
    ctx.count('evaluations')
    kc = k
    # the real accessor, with every twin handed out earlier still alive (an implementation that caches twins must keep them current)
    pub = k.pubkey
    a.__dict__.setdefault('twins', []).append(pub)
    blob = bytes(pub)
    # (1) every self-issued signature verifies: reference over the export ...
    st = {}
    try:
        verify_key_blob(blob, st)
    except (wire.Malformed, grammar.NotGrammatical) as e:
        ctx.fail('public-export-unreadable', dict(where, err=str(e)))
        return
    ctx.count('selfsigs_verified_by_reference', st.get('verified', 0))
    if st.get('rejected'):
        ctx.fail('reference-rejects-self-signature', dict(where, examples=st.get('rejected_examples', [])[:3]))
    # ... and PGPy, before and after export -> import
    # third view: the export with grant-everything / never-expires / primary / other-preferences subpackets appended to the UNSIGNED area of every
    # self-signature and binding - what the self-signatures say is what their signed part says
    from .. import unhashed
    ublob, _n = unhashed.inject(blob, {0x10, 0x11, 0x12, 0x13, 0x18, 0x1F}, unhashed.ALL + unhashed.NOT_EXPORTABLE)
    for form, pk in (('twin', pub), ('reimported', pg.PGPKey.from_blob(blob)[0]), ('reimported-with-unsigned-additions', pg.PGPKey.from_blob(ublob)[0])):
        if form == 'reimported':
            ctx.count('reimports')
        try:
            sv = pk.verify(pk)
            bad = list(sv.bad_signatures)
            if bad or not sv:
                ctx.fail('self-signature-fails-under-public-half', dict(where, form=form, bad=[b.signature.type.name for b in bad][:4]))
        except Exception as e:
            ctx.fail('self-verification-raised', dict(where, form=form, err='%s: %s' % (type(e).__name__, str(e)[:120])))
        # (2) effective parameters per identity = most recent self-certification of the model
        got_uids = {u.name: u for u in pk.userids}
        if set(got_uids) != set(m.uids):
            ctx.fail('identities-differ-from-model', dict(where, form=form, got=sorted(got_uids), expected=sorted(m.uids)))
            continue
        for t, mu in m.uids.items():
            if mu['revoked']:
                ctx.observe('revoked_identity_parameters_not_compared')
                continue
            u = got_uids[t]
            last = mu['sigs'][-1]
            alts = [s for s in mu['sigs'] if s['created'] == last['created']]
            ctx.count('effective_params_compared')
            ss = u.selfsig
            if ss is None:
                ctx.fail('identity-without-self-signature', dict(where, form=form, uid=t))
                continue
            gotrec = {'flags': sorted(f.name for f in ss.key_flags), 'hashes': [h.name for h in ss.hashprefs], 'primary': u.is_primary,
                      'kexp': int(ss.key_expiration.total_seconds()) if ss.key_expiration is not None else None}
            if not any(gotrec['flags'] == s['flags'] and gotrec['hashes'] == s['hashes'] and gotrec['primary'] == bool(s['primary']) and gotrec['kexp'] == s['kexp'] for s in alts):
                ctx.fail('effective-parameters-not-those-of-most-recent-self-signature', dict(where, form=form, uid=t, got=gotrec, expected={k_: v for k_, v in last.items() if k_ != 'created'},
                                                                                               n_selfsigs=len(mu['sigs'])))
        exported_names = {p_.body.split(b' <')[0].split(b' (')[0] for p_ in wire.split(blob) if p_.tag == 13}
        for t in m.removed:
            if t.encode() in exported_names:
                ctx.fail('removed-identity-still-exported', dict(where, form=form, uid=t))
        # (3b) direct-key self-signatures (designated revokers among them, sensitive or not) all arrive
        mine = str(pk.fingerprint)[-16:]
        nd = sum(1 for s_ in pk.__sig__ if s_.type == 0x1F and s_.signer == mine)
        if nd != m.direct:
            ctx.fail('direct-key-self-signatures-differ-from-model', dict(where, form=form, got=nd, expected=m.direct, designated_revokers=m.revokers))
        # (4) revocations reported for exactly the revoked components
        if bool(list(pk.revocation_signatures)) != m.key_revoked:
            ctx.fail('key-revocation-report', dict(where, form=form, reported=len(list(pk.revocation_signatures)), expected=m.key_revoked))
        for sn, ms in m.subs.items():
            fp = RK.fpr_of(pool.mat(sn)).hex().upper()
            sk = next((s for s in pk.subkeys.values() if str(s.fingerprint) == fp), None)
            if sk is None:
                ctx.fail('subkey-missing', dict(where, form=form, sub=sn))
                continue
            if bool(list(sk.revocation_signatures)) != ms['revoked']:
                ctx.fail('subkey-revocation-report', dict(where, form=form, sub=sn, reported=len(list(sk.revocation_signatures)), expected=ms['revoked']))
            binds = [s for s in sk.__sig__ if s.type == 0x18 and not s.embedded]
            if ms['signing'] and not any(s.embedded and s.type == 0x19 for s in sk.__sig__):
                ctx.fail('signing-subkey-without-cross-signature', dict(where, form=form, sub=sn))
        if len(pk.subkeys) != len(m.subs) or len(pk.userattributes) != m.uas:
            ctx.fail('component-count-differs', dict(where, form=form, subs=len(pk.subkeys), uas=len(pk.userattributes)))
        # key expiry: that of the most recent self-certification of one of the (non-revoked) identities, or none if none of them carries one
        cands = set()
        for t, mu in m.uids.items():
            last = mu['sigs'][-1]
            for s_ in [x for x in mu['sigs'] if x['created'] == last['created']]:
                cands.add(s_['kexp'])
        ea = pk.expires_at
        got_exp = int((ea - pk.created).total_seconds()) if ea is not None else None
        if got_exp not in cands and not (got_exp is None and None in cands):
            if not any(mu['revoked'] for mu in m.uids.values()):
                ctx.fail('key-expiry-not-from-a-most-recent-self-signature', dict(where, form=form, got=got_exp, candidates=sorted(str(c) for c in cands)))
    # (4b) the key, its twin, a copy and the re-imported key present the identities in the same order, and copy / re-import export identically
    order = [u.name for u in k.userids] + ['<ua>'] * len(k.userattributes)
    same_second = any(len({s_['created'] for s_ in mu['sigs']}) < len(mu['sigs']) for mu in m.uids.values()) or \
        len({mu['sigs'][-1]['created'] for mu in m.uids.values()}) < len(m.uids) or getattr(m, 'tied', False)
    kb = bytes(k)
    for form, other_ in (('twin', pub), ('copy', copy.copy(k)), ('reimported', pg.PGPKey.from_blob(kb)[0])):
        o2 = [u.name for u in other_.userids] + ['<ua>'] * len(other_.userattributes)
        ctx.count('identity_orders_compared')
        if o2 != order and not same_second:
            ctx.fail('identity-order-differs-between-views-of-one-key', dict(where, form=form, key=order, other=o2))
        if form != 'twin' and bytes(other_) != kb and not same_second:
            ctx.fail('copy-or-reimport-exports-differently', dict(where, form=form, lens=[len(kb), len(bytes(other_))]))
    # (5) fresh twin = public projection of the private export
    try:
        t_pub, bad = C07.tree_of_public(blob)
        dd = C07.diff(t_pub, C07.projection(bytes(kc)))
        if dd or bad:
            ctx.fail('public-twin-differs-from-projection', dict(where, differs=dd, bad_tags=bad))
    except Exception as e:
        ctx.fail('projection-failed', dict(where, err=repr(e)[:160]))
    held = getattr(a, 'held', None)
    if held is not None and not held.is_public:
        held = None
    ctx.flags.setdefault('states_seen', {})[str(m.state())] = 1


def run_case(ctx, d):
    import pgpy
    with warnings.catch_warnings():
        warnings.simplefilter('ignore')
        if d['t'] == 'exhaustive':
            other = Actor(pgpy, 'ed25519_2', 9)
            for h in d['hists']:
                a = Actor(pgpy, d['primary'], 0)
                ctx.count('histories')
                applied = []
                for step, oi in enumerate(h):
                    op = ALPHA[oi]
                    if a.step(op, [other]):
                        applied.append(op)
                    if step >= len(h) - 2:
                        check_actor(ctx, a, {'history': [ALPHA[x] for x in h[:step + 1]]})
                if any(o in applied for o in ('recertify', 'revoke_uid', 'del_uid', 'revoke_subkey', 'revoke_key')):
                    ctx.nontrivial({'h': h})
            ctx.flags['exhaustive'] = True
            if len(ctx.samples) < 2:
                ctx.sample({'history': [ALPHA[x] for x in d['hists'][0]], 'alphabet': ALPHA})
        else:
            r = ctx.rng('walk', d['w'], d['seed'])
            prim = r.sample(['ed25519_0', 'rsa1024_0', 'ecdsa_p256_0', 'dsa1024_0', 'ecdsa_k256_0', 'ed25519_1'], 3)
            from .. import foreignkey
            # every third walk: one of the three keys was made by another implementation
            actors = [Actor(pgpy, p, i, foreign=(foreignkey.STYLES[(d['w'] // 3 + i) % len(foreignkey.STYLES)] if d['w'] % 3 == 0 and i == d['w'] % 2 else None)) for i, p in enumerate(prim)]
            if any(x for x in actors if x.m.subs):
                ctx.count('walks_starting_from_foreign_key')
            ctx.count('histories')
            trace = []
            for step in range(d['n']):
                a = r.choice(actors)
                op = r.choice(ALPHA + EXTRA)
                try:
                    ok = a.step(op, [x for x in actors if x is not a], r)
                except Exception:
                    trace.append('%d:%s!' % (a.idx, op))
                    ctx.case = dict(d, trace=trace[-10:])
                    raise
                if ok:
                    trace.append('%d:%s' % (a.idx, op))
                    check_actor(ctx, a, {'walk': d['w'], 'step': step, 'trace': trace[-8:], 'primary': a.m.name})
            ctx.nontrivial({'walk': d['w'], 'seed': d['seed']})
            if len(ctx.samples) < 3:
                ctx.sample({'walk': d['w'], 'primaries': prim, 'trace': trace})


def post_merge(counters, flags):
    counters['abstract_states'] = len(flags.get('states_seen', {}))


def coverage_extra(counters, flags):
    return {'states': len(flags.get('states_seen', {})), 'transitions': counters.get('steps_checked', 0)}
