"""C07 -- the public export never carries or exercises secret material.

Reference-model monitor over key-management histories: at every state (and for a twin that was derived *earlier* and held), bytes/str of
key.pubkey are split by the independent parser: only public-key, user-id, user-attribute and signature packets may occur, no octet string
of any secret integer, and the component tree must equal the reference's public projection of bytes(private key).  Objects holding only
public material (derived or loaded) must refuse every private operation.
"""
import copy
import warnings

from ..core import hx
from ..ref import wire, keys as RK, grammar, armor
from .. import pool, sigwork, foreignkey

LEVEL = 'exploration'
RULE = ('case = (key shape: primary algorithm, subkey, protection state) x history of key-management operations; one evaluation per state at which a twin '
        '(fresh and held-from-earlier) is compared with the public projection; non-trivial = the history contains at least one operation after the held '
        'twin was derived; distinct = distinct (shape, history) descriptors')
ASSUMPTIONS = ['vf.ref packet splitter and key-grammar parser', 'secret integers shorter than 8 octets are not scanned for']
MIN_COUNTERS = {'quick': {'states_checked': 150, 'fresh_twin_matches': 150, 'private_ops_refused': 300, 'secret_scans': 300, 'foreign_keys_loaded': 15, 'key_level_signatures_by_other_keys': 20},
                'thorough': {'states_checked': 3000}}
BUDGET = {'quick': (600, 1500), 'thorough': (1800, 3600)}
TECHNIQUE = 'runtime monitoring: history monitor; exports compared with the public projection computed by an independent parser; secret-octet scan; refusal matrix'

SHAPES = [('ed25519_1', 'ecdh_p256_1+kdf10.9'), ('ecdsa_p384_0', 'cv25519_1+kdf9.8'), ('ed25519_0', 'cv25519_0'), ('rsa1024_0', 'rsa1024_1'), ('ecdsa_p256_0', 'ecdh_p256_0'), ('dsa1024_0', 'ed25519_1'), ('ecdsa_k256_0', 'ecdh_k256_0'), ('rsa2048_0', None),
          # public points whose coordinates both begin with a zero octet (one P-521 key in four): the width is that of the curve, not of the value
          ('ecdsa_p521_short', 'ecdh_p521_short'), ('ecdsa_p256_short', 'ecdh_p521_short')]
OPS = ['add_uid', 'add_ua', 'add_subkey', 'third_party', 'revoke_uid', 'revoke_subkey', 'revoke_key', 'direct', 'del_uid', 'recertify', 'protect', 'nonexportable', 'lapsed_cert',
       'third_party_direct', 'designated_revocation']


def cases(tier, seed):
    import random
    r = random.Random(seed)
    cs = []
    n = 9 if tier == 'quick' else 300
    for si, (p, s) in enumerate(SHAPES):
        for h in range(n):
            ops = [r.choice(OPS) for _ in range(r.randint(2, 7))]
            cs.append({'primary': p, 'sub': s, 'ops': ops, 'derive_at': r.randint(0, max(0, len(ops) - 2)), 'h': h, 'mode': 'held' if h % 3 else 'accessor'})
    # private keys that arrive from another implementation (legal encodings that are not PGPy's own) and then go through a history
    for si, (p, s) in enumerate(SHAPES):
        for j, style in enumerate(foreignkey.STYLES):
            if tier == 'quick' and (si + j) % 2:
                continue
            ops = [r.choice(OPS) for _ in range(r.randint(0, 4))]
            cs.append({'primary': p, 'sub': s, 'ops': ops, 'derive_at': 0, 'h': 1000 + j, 'mode': ['held', 'accessor'][(si + j) % 2], 'foreign': style})
    # RSA keys written under the deprecated identifiers (2 = encrypt only, 3 = sign only)
    for j, (p, s, pa, sa) in enumerate((('ed25519_0', 'rsa1024_1', None, 2), ('rsa1024_0', 'rsa1024_1', 3, 2), ('rsa2048_0', 'rsa1024_1', 3, None), ('ecdsa_p256_0', 'rsa2048_1', None, 2))):
        cs.append({'primary': p, 'sub': s, 'ops': [r.choice(OPS) for _ in range(j)], 'derive_at': 0, 'h': 2000 + j, 'mode': ['held', 'accessor'][j % 2], 'foreign': 'plain', 'primary_alg': pa, 'sub_alg': sa})
    return cs


def projection(blob):
    """reference public projection of a transferable (secret or public) key -> component tree of octet strings"""
    key = grammar.parse_keys(wire.split(blob))[0]
    def pub(p):
        return RK.parse_pub(p.body)['pubbody']
    return {'primary': pub(key['primary']),
            'direct': sorted(s.body for s in key['direct']),
            'uids': sorted((u.tag, u.body, tuple(sorted(s.body for s in sigs))) for u, sigs in key['uids']),
            'subkeys': sorted((pub(k), tuple(sorted(s.body for s in sigs))) for k, sigs in key['subkeys'])}


def tree_of_public(blob):
    pk = wire.split(blob)
    bad = [p.tag for p in pk if p.tag not in (6, 14, 13, 17, 2)]
    key = grammar.parse_keys(pk)[0]
    t = {'primary': key['primary'].body,
         'direct': sorted(s.body for s in key['direct']),
         'uids': sorted((u.tag, u.body, tuple(sorted(s.body for s in sigs))) for u, sigs in key['uids']),
         'subkeys': sorted((k.body, tuple(sorted(s.body for s in sigs))) for k, sigs in key['subkeys'])}
    return t, bad


def diff(a, b):
    out = []
    for f in ('primary', 'direct', 'uids', 'subkeys'):
        if a[f] != b[f]:
            out.append('%s (%s vs %s)' % (f, len(a[f]), len(b[f])))
    return out


def check_public(ctx, pubobj, names, where):
    """packet tags, secret scan, armor == binary"""
    ctx.count('secret_scans')
    blob = bytes(pubobj)
    text = str(pubobj)
    try:
        d = armor.dearmor(text)
        if d['data'] != blob or d['kind'] != 'PUBLIC KEY BLOCK':
            ctx.fail('armored-public-export-differs-or-mislabelled', {'where': where, 'kind': d['kind']})
    except wire.Malformed as e:
        ctx.fail('armored-public-export-unreadable', {'where': where, 'err': str(e)})
    try:
        tree, bad = tree_of_public(blob)
    except (wire.Malformed, grammar.NotGrammatical) as e:
        ctx.fail('public-export-not-a-transferable-public-key', {'where': where, 'err': str(e)})
        return None
    if bad:
        ctx.fail('public-export-contains-non-public-packet', {'where': where, 'tags': bad})
    for n in names:
        for f, b in RK.secret_octet_strings(pool.mat(n)):
            if b in blob:
                ctx.fail('secret-integer-in-public-export', {'where': where, 'component': n, 'field': f})
    return tree


def refuse_all(ctx, pgpy, pubobj, where, names=()):
    from pgpy.errors import PGPError
    from pgpy.constants import CompressionAlgorithm
    other = sigwork.target_key()
    msg = pgpy.PGPMessage.new('x', compression=CompressionAlgorithm.Uncompressed)
    enc = other.pubkey.encrypt(msg)
    ops = [('sign', lambda: pubobj.sign('doc')), ('sign-none', lambda: pubobj.sign(None)),
           ('certify', lambda: pubobj.certify(other.pubkey.userids[0])), ('certify-key', lambda: pubobj.certify(other.pubkey)),
           ('revoke', lambda: pubobj.revoke(pubobj)), ('revoker', lambda: pubobj.revoker(other.pubkey)), ('decrypt', lambda: pubobj.decrypt(enc)),
           ('add_uid', lambda: pubobj.add_uid(pgpy.PGPUID.new('x'))),
           ('add_subkey', lambda: pubobj.add_subkey(pool.pgpy_bare('ed25519_3'), usage={pgpy.constants.KeyFlags.Sign})),
           ('add_subkey-ecdh', lambda: pubobj.add_subkey(pool.pgpy_bare('cv25519_2'), usage={pgpy.constants.KeyFlags.EncryptCommunications}))]
    if pubobj.subkeys:
        sk = list(pubobj.subkeys.values())[0]
        ops += [('bind', lambda: pubobj.bind(sk)), ('subkey-sign', lambda: sk.sign('doc')), ('subkey-decrypt', lambda: sk.decrypt(enc))]
    for name, f in ops:
        ctx.count('evaluations')
        try:
            r = f()
            ctx.fail('public-object-performed-private-operation', {'where': where, 'op': name, 'result': repr(r)[:80]})
        except PGPError:
            ctx.count('private_ops_refused')
        except Exception as e:
            ctx.count('private_ops_refused')
            ctx.outcome('refused_with:' + type(e).__name__)
    # ... and a refused operation leaves nothing behind: the object is still public in every part and exports public packets only
    ctx.count('public_objects_rechecked_after_refusals')
    if not pubobj.is_public or any(not sk.is_public for sk in pubobj.subkeys.values()):
        ctx.fail('public-object-holds-a-private-component-after-refused-operation', {'where': where, 'subkeys_private': [str(x.fingerprint) for x in pubobj.subkeys.values() if not x.is_public]})
    check_public(ctx, pubobj, list(names) + ['ed25519_3', 'cv25519_2'], dict(where, after='refused operations'))


def run_case(ctx, d):
    import pgpy
    from pgpy.constants import KeyFlags, SignatureType, SymmetricKeyAlgorithm, HashAlgorithm
    with warnings.catch_warnings():
        warnings.simplefilter('ignore')
        names = [d['primary']] + ([d['sub']] if d['sub'] else [])
        must_keep = []
        if d.get('foreign'):
            fblob, finfo = foreignkey.build(d['primary'], d['sub'], d['foreign'], extra_uid=b'Second Identity <second@example.org>', primary_alg=d.get('primary_alg'), sub_alg=d.get('sub_alg'))
            k, _ = pgpy.PGPKey.from_blob(fblob)
            # the first identity's self-certification and the subkey binding are never removed by the operations below
            must_keep = [finfo['sig_bodies'][0]] + ([finfo['sig_bodies'][-1]] if d['sub'] else [])
            ctx.count('foreign_keys_loaded')
        else:
            k = pool.pgpy_key(d['primary'], sub=d['sub'], fresh=True, uid='C07 user %d' % d['h'])
        other = sigwork.target_key()
        held = None
        alive = []
        held_at = None
        held_tree_at_derivation = None
        extra_subs = ['ed25519_3', 'cv25519_2', 'ecdsa_p384_1']
        nuid = 0
        pw = None
        for i, op in enumerate(d['ops'] + ['end']):
            if i == d['derive_at'] and d.get('mode') != 'accessor':
                held = k.pubkey
                held_at = i
                held_tree_at_derivation = projection(bytes(k))
            ctx_unlock = k.unlock(pw) if pw else None
            if ctx_unlock:
                ctx_unlock.__enter__()
            try:
                if op == 'add_uid':
                    nuid += 1
                    k.add_uid(pgpy.PGPUID.new('Extra %d' % nuid, email='e%d@example.org' % nuid), usage={KeyFlags.Sign})
                elif op == 'add_ua':
                    if not k.userattributes:
                        k.add_uid(pgpy.PGPUID.new(bytearray(sigwork.JPEG)))
                elif op == 'add_subkey' and extra_subs:
                    sn = extra_subs.pop()
                    names.append(sn)
                    sk = pool.pgpy_bare(sn)
                    k.add_subkey(sk, usage={KeyFlags.Sign} if pool.mat(sn)['alg'] != 18 else {KeyFlags.EncryptCommunications})
                elif op == 'third_party':
                    u = k.userids[0]
                    u |= other.certify(u, SignatureType.Casual_Cert)
                elif op == 'lapsed_cert':
                    # a certification whose own expiration time has passed is still a signature of the key: both halves carry it
                    from datetime import datetime, timezone, timedelta
                    u = k.userids[0]
                    u |= other.certify(u, SignatureType.Generic_Cert, created=datetime.now(timezone.utc) - timedelta(hours=3 + i), expires=timedelta(hours=1))
                    if k.userattributes:
                        a_ = k.userattributes[0]
                        a_ |= other.certify(a_, SignatureType.Generic_Cert, created=datetime.now(timezone.utc) - timedelta(days=2, hours=i), expires=timedelta(minutes=5))
                elif op == 'nonexportable':
                    u = k.userids[-1]
                    u |= other.certify(u, SignatureType.Generic_Cert, exportable=False)
                elif op == 'revoke_uid' and len(k.userids) > 1:
                    u = k.userids[-1]
                    u |= k.revoke(u)
                elif op == 'revoke_subkey' and k.subkeys:
                    sk = list(k.subkeys.values())[-1]
                    sk |= k.revoke(sk)
                elif op == 'revoke_key':
                    k |= k.revoke(k)
                elif op == 'direct':
                    k |= k.certify(k)
                elif op == 'third_party_direct':
                    # key-level signatures made by OTHER keys are part of the key as well: a direct-key signature by somebody else ...
                    kp_ = copy.copy(k).pubkey
                    k |= other.certify(kp_)
                    ctx.count('key_level_signatures_by_other_keys')
                elif op == 'designated_revocation':
                    # ... and a revocation issued by the key's designated revoker
                    k |= k.revoker(other.pubkey)
                    kp_ = copy.copy(k).pubkey
                    k |= other.revoke(kp_)
                    ctx.count('key_level_signatures_by_other_keys')
                elif op == 'del_uid' and len(k.userids) > 1:
                    k.del_uid(k.userids[-1].name)
                elif op == 'recertify':
                    u = k.userids[0]
                    u |= k.certify(u, SignatureType.Positive_Cert, usage={KeyFlags.Sign, KeyFlags.Certify}, hashes=[HashAlgorithm.SHA512])
                elif op == 'protect' and pw is None:
                    pw = 'c07'
                    k.protect(pw, SymmetricKeyAlgorithm.AES128, HashAlgorithm.SHA1)
                    continue
            finally:
                if ctx_unlock:
                    ctx_unlock.__exit__(None, None, None)
            # ---- state reached: compare
            ctx.count('states_checked')
            ctx.count('evaluations')
            where = {'case': d, 'after_step': i, 'op': op}
            proj = projection(bytes(k))
            states = [('locked' if pw else 'unprotected', None)]
            if pw:
                states.append(('unlocked', pw))
            for sname, p_ in states:
                cm = k.unlock(p_) if p_ else None
                if cm:
                    cm.__enter__()
                try:
                    if d.get('mode') == 'accessor':
                        # the real accessor at every state, every twin it ever returned kept alive: each must be current when handed out
                        fresh = k.pubkey
                        alive.append(fresh)
                    else:
                        # derived from a copy, so that the private key stays linked to the twin that is being held
                        kc = copy.copy(k)
                        fresh = kc.pubkey
                    tree = check_public(ctx, fresh, names, dict(where, twin='fresh', state=sname))
                    if tree is not None:
                        dd = diff(tree, proj)
                        if dd:
                            ctx.fail('fresh-public-twin-differs-from-projection', dict(where, state=sname, differs=dd))
                        else:
                            ctx.count('fresh_twin_matches')
                        if must_keep:
                            have = {p_.body for p_ in wire.split(bytes(fresh)) if p_.tag == 2}
                            ctx.count('received_signatures_looked_for', len(must_keep))
                            if not all(b in have for b in must_keep):
                                ctx.fail('public-twin-does-not-carry-the-signatures-as-received', dict(where, state=sname, missing=sum(1 for b in must_keep if b not in have)))
                    if str(fresh.fingerprint) != RK.fingerprint(proj['primary']).hex().upper():
                        ctx.fail('twin-fingerprint', where)
                finally:
                    if cm:
                        cm.__exit__(None, None, None)
            if held is not None and i >= held_at:
                tree = check_public(ctx, held, names, dict(where, twin='held-since-step-%d' % held_at))
                if tree is not None:
                    dd = diff(tree, proj)
                    if dd:
                        ctx.fail('held-public-twin-is-stale', dict(where, differs=dd, held_since=held_at, ops_since=d['ops'][held_at:i + 1],
                                                                   equals_state_at_derivation=not diff(tree, held_tree_at_derivation)))
                    else:
                        ctx.count('held_twin_matches')
            if i == len(d['ops']):
                kc2 = copy.copy(k)
                refuse_all(ctx, pgpy, kc2.pubkey, where, names)
                refuse_all(ctx, pgpy, pgpy.PGPKey.from_blob(bytes(kc2.pubkey))[0], dict(where, loaded=True), names)
                if held is not None:
                    refuse_all(ctx, pgpy, held, dict(where, held=True), names)
        if len(d['ops']) > d['derive_at']:
            ctx.nontrivial(d)
        if len(ctx.samples) < 3:
            ctx.sample({'case': d, 'public_export_packets': [p.tag for p in wire.split(bytes(copy.copy(k).pubkey))]})


def classify(ctx, kind, detail, case):
    """known finding: a twin derived earlier is not kept in sync (only the most recently derived twin receives additions made through key |= x).
    Positively confirmed: the *fresh* twin of the same state matched the projection in the same step (no fresh-twin failure recorded for this case)."""
    if kind == 'held-public-twin-is-stale':
        unsynced = {'add_subkey', 'del_uid', 'third_party', 'nonexportable', 'lapsed_cert', 'revoke_uid', 'recertify'}     # (subkey |= x goes through PGPKey.__or__ and IS mirrored: not in this set)
        if unsynced & set(detail.get('ops_since', [])):
            return 'public-twin-held-from-earlier-goes-stale'
    return None
