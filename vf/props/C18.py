"""C18 -- fingerprints and key ids are the RFC 4880 values and are stable.

Reference-model monitor: key.fingerprint / keyid / shortid of the real code against SHA-1(0x99 || len || public-key packet body
*as exported*), computed by vf.ref from bytes(key); for reference-encoded keys of every algorithm and creation time (TZ varied),
keys with leading-zero-bit integers, PGPy-generated keys; across the forms private / public twin / protected / unlocked / copy /
re-import (binary + armor); and against the issuer, issuer-fingerprint and recipient fields PGPy writes.
"""
import copy
import os
import time
import warnings
from datetime import datetime, timezone, timedelta

from ..core import hx
from ..ref import wire, keys as RK, sig as RS, pk as RPK
from .. import pool

W0_COUNTER = 'C18_fingerprints'   # thorough tier: the repository's own tests run under this property's always-on monitor
LEVEL = 'exploration'
RULE = ('case = (key material, creation time, TZ) or (key, form) or (emitted field kind); one evaluation per fingerprint/keyid comparison; '
        'non-trivial = creation time at a 32-bit/sign boundary or with TZ != UTC, or an integer with leading zero bits, or a non-primary component, '
        'or a protected/unlocked/copied/re-imported form; distinct = distinct case descriptors')
ASSUMPTIONS = ['hashlib SHA-1', 'vf.ref.keys public-key body encoder (validated: it reproduces the fingerprints that make every fixture self-signature verify)']
MIN_COUNTERS = {'fpr_compared': 400, 'forms_compared': 60, 'emitted_fields': 30, 'generated_keys': 6, 'leading_zero_keys': 20, 'zero_leading_identifiers': 20, 'issued_signature_kinds': 100}
BUDGET = {'quick': (600, 1500), 'thorough': (1200, 3600)}

TIMES = [0, 1, 2**31 - 1, 2**31, 2**31 + 1, 2**32 - 1, 1109484000, 1130648400, 1667714400, 946684799, 86399, 86400]
ALLKEYS = ['rsa1024_0', 'rsa2048_0', 'rsa3072_0', 'dsa1024_0', 'dsa2048_0', 'dsa3072_0', 'ecdsa_p256_0', 'ecdsa_p384_0', 'ecdsa_p521_0', 'ecdsa_k256_0',
           'ecdh_p256_0', 'ecdh_p384_0', 'ecdh_p521_0', 'ecdh_k256_0', 'ed25519_0', 'cv25519_0',
           # public points whose coordinates begin with a zero octet
           'ecdsa_p521_short', 'ecdh_p521_short', 'ecdsa_p256_short', 'elg1024_0']


def cases(tier, seed):
    cs = []
    for k in ALLKEYS:
        for tz in ('UTC', 'America/New_York', 'Asia/Kolkata', 'Pacific/Kiritimati'):
            cs.append({'t': 'times', 'key': k, 'tz': tz, 'seed': seed, 'n': 8 if tier == 'quick' else 200})
    for k in ALLKEYS[:-1] + ['ecdh_p256_0+kdf10.9', 'ecdh_p384_0+kdf8.7', 'cv25519_0+kdf10.9', 'ecdh_k256_0+kdf9.8', 'ecdh_p521_0+kdf8.8']:
        cs.append({'t': 'forms', 'key': k})
    cs.append({'t': 'leading_zero', 'seed': seed, 'n': 40 if tier == 'quick' else 1000})
    for alg in (2, 3):
        cs.append({'t': 'deprecated_rsa', 'alg': alg})
    for k in ('ed25519_0', 'rsa1024_0', 'ecdsa_p256_0'):
        for wh in ('keyid', 'fpr', 'shortid'):
            cs.append({'t': 'zero_ids', 'key': k, 'where': wh})
    for alg in ('ed', 'cv', 'p256', 'k256', 'p384', 'p521', 'rsa1024', 'dsa1024'):
        cs.append({'t': 'generated', 'alg': alg})
    for k in ('ed25519_0', 'rsa1024_0', 'ecdsa_p256_0', 'dsa1024_0'):
        for e in ('cv25519_0', 'rsa1024_1', 'ecdh_p256_0'):
            cs.append({'t': 'emitted', 'key': k, 'enc': e})
    return cs


def fpr_hex(pubbody):
    return RK.fingerprint(pubbody).hex().upper()


def check_fpr(ctx, keyobj, expected_hex, where):
    ctx.count('fpr_compared')
    ctx.count('evaluations')
    f = keyobj.fingerprint
    if str(f) != expected_hex or f.keyid != expected_hex[-16:] or f.shortid != expected_hex[-8:]:
        ctx.fail('fingerprint-differs-from-reference', {'where': where, 'got': str(f), 'keyid': f.keyid, 'shortid': f.shortid, 'expected': expected_hex})
        return False
    if not (f == expected_hex and f == expected_hex[-16:] and f == ' '.join(expected_hex[i:i + 4] for i in range(0, 40, 4))):
        ctx.fail('fingerprint-comparison-law', {'where': where})
    return True


def exported_fprs(blob):
    """[(tag, fingerprint hex)] for every key packet of an export, per the reference parser"""
    out = []
    for p in wire.split(blob):
        if p.tag in (5, 6, 7, 14):
            k = RK.parse_pub(p.body)
            out.append((p.tag, fpr_hex(k['pubbody'])))
    return out


def run_case(ctx, d):
    import pgpy
    with warnings.catch_warnings():
        warnings.simplefilter('ignore')
        getattr(__import__(__name__, fromlist=['x']), '_' + d['t'])(ctx, d, pgpy)


def _times(ctx, d, pgpy):
    os.environ['TZ'] = d['tz']
    time.tzset()
    try:
        r = ctx.rng('times', d['key'], d['tz'], d['seed'])
        for t in TIMES + [r.randrange(1 << 32) for _ in range(d['n'])]:
            m = pool.mat(d['key'], created=t)
            exp = fpr_hex(RK.pub_body(m))
            for secret in (True, False):
                raw = pool.secret_packet(d['key'], created=t) if secret else pool.public_packet(d['key'], created=t)
                k = pgpy.PGPKey.from_blob(raw)[0]
                if check_fpr(ctx, k, exp, {'key': d['key'], 't': t, 'tz': d['tz'], 'secret': secret}):
                    # and what it exports must hash to the same value
                    ef = exported_fprs(bytes(k))
                    if ef[0][1] != exp:
                        ctx.fail('export-changes-fingerprint', {'key': d['key'], 't': t, 'tz': d['tz'], 'exported': ef[0][1], 'expected': exp})
            if k.created != datetime(1970, 1, 1, tzinfo=timezone.utc) + timedelta(seconds=t):
                ctx.fail('created-differs', {'t': t, 'got': str(k.created)})
    finally:
        os.environ['TZ'] = 'UTC'
        time.tzset()
    ctx.nontrivial(d)
    if len(ctx.samples) < 3:
        ctx.sample({'case': d, 'fingerprint_at_t0': fpr_hex(RK.pub_body(pool.mat(d['key'], created=0)))})


def _forms(ctx, d, pgpy):
    from pgpy.constants import SymmetricKeyAlgorithm, HashAlgorithm
    name = d['key']
    m = pool.mat(name)
    sub = 'cv25519_1' if m['alg'] != 18 else 'ed25519_3'
    primary = name if m['alg'] != 18 else 'ed25519_2'
    subn = sub if m['alg'] != 18 else name
    k = pool.pgpy_key(primary, sub=subn, fresh=True, uid='forms')
    exp_p = fpr_hex(RK.pub_body(pool.mat(primary)))
    exp_s = fpr_hex(RK.pub_body(pool.mat(subn)))

    def both(obj, form):
        ctx.count('forms_compared')
        check_fpr(ctx, obj, exp_p, {'key': primary, 'form': form})
        subs = list(obj.subkeys.values())
        if len(subs) != 1:
            ctx.fail('subkey-missing', {'form': form})
            return
        check_fpr(ctx, subs[0], exp_s, {'key': subn, 'form': form + '/subkey'})
        if list(obj.subkeys.keys()) != [exp_s[-16:]]:
            ctx.fail('subkey-index-keyid', {'form': form, 'keys': list(obj.subkeys.keys())})
        ef = [f for _, f in exported_fprs(bytes(obj))]
        if ef != [exp_p, exp_s]:
            ctx.fail('exported-fingerprints', {'form': form, 'exported': ef, 'expected': [exp_p, exp_s]})

    both(k, 'private')
    pub = k.pubkey
    both(pub, 'public-twin')
    both(copy.copy(k), 'copy')
    both(copy.copy(pub), 'copy-of-twin')
    both(pgpy.PGPKey.from_blob(bytes(k))[0], 'reimport-binary')
    both(pgpy.PGPKey.from_blob(str(k))[0], 'reimport-armor')
    both(pgpy.PGPKey.from_blob(str(pub))[0], 'reimport-public-armor')
    k.protect('pw', SymmetricKeyAlgorithm.AES128, HashAlgorithm.SHA1)
    both(k, 'protected')
    both(k.pubkey, 'twin-of-protected')
    with k.unlock('pw'):
        both(k, 'unlocked')
    both(k, 'relocked')
    both(pgpy.PGPKey.from_blob(bytes(k))[0], 'reimport-protected')
    ctx.nontrivial(d)


def _leading_zero(ctx, d, pgpy):
    """public integers with leading zero bits / short values: the hashed body must be the MPI encoding as exported"""
    r = ctx.rng('lz', d['seed'])
    for i in range(d['n']):
        kind = r.choice(['rsa', 'dsa', 'elg', 'ecdsa', 'eddsa', 'ecdh'])
        t = r.choice(TIMES + [r.randrange(1 << 32)])
        if kind == 'rsa':
            bits = r.choice([1017, 1020, 1024, 2041, 2047])
            # the deprecated RSA identifiers 2 (encrypt only) and 3 (sign only) are part of the hashed body like any other
            m = {'alg': r.choice([1, 1, 2, 3]), 'created': t, 'n': r.getrandbits(bits) | (1 << (bits - 1)) | 1, 'e': r.choice([3, 17, 65537, 5])}
        elif kind == 'dsa':
            m = {'alg': 17, 'created': t, 'p': r.getrandbits(1024) | (1 << 1023), 'q': r.getrandbits(160) | (1 << 159), 'g': r.getrandbits(r.choice([3, 500, 1019])) | 1,
                 'y': r.getrandbits(r.choice([1, 9, 1000, 1017])) | 1}
        elif kind == 'elg':
            m = {'alg': 16, 'created': t, 'p': r.getrandbits(1024) | (1 << 1023), 'g': r.choice([2, 5]), 'y': r.getrandbits(r.choice([7, 1001])) | 1}
        elif kind == 'ecdsa':
            base = pool.mat(r.choice(['ecdsa_p256_0', 'ecdsa_p384_1', 'ecdsa_p521_0', 'ecdsa_k256_0']))
            pt = bytearray(base['point'])
            n = (len(pt) - 1) // 2
            for j in range(1, 1 + r.choice([0, 1, 2])):
                pt[j] = 0   # x with leading zero octets (point need not be on the curve for a fingerprint)
            m = {'alg': 19, 'created': t, 'oid': base['oid'], 'point': bytes(pt)}
        elif kind == 'eddsa':
            m = {'alg': 22, 'created': t, 'oid': RK.OID['ed25519'], 'point': b'\x40' + bytes([0] * r.choice([0, 1, 3])) + bytes(r.getrandbits(8) for _ in range(32))}
            m['point'] = m['point'][:33]
        else:
            base = pool.mat('cv25519_0')
            m = {'alg': 18, 'created': t, 'oid': base['oid'], 'point': b'\x40' + bytes([0] * r.choice([0, 2])) + bytes(r.getrandbits(8) for _ in range(32)), 'kdf_hash': 8, 'kdf_sym': 7}
            m['point'] = m['point'][:33]
        body = RK.pub_body(m)
        raw = wire.new_hdr(6, len(body)) + body
        ctx.count('leading_zero_keys')
        try:
            k = pgpy.PGPKey.from_blob(raw)[0]
        except Exception as e:
            ctx.fail('well-formed-public-key-rejected', {'kind': kind, 'raw': hx(raw[:60]), 'err': repr(e)[:200]})
            continue
        check_fpr(ctx, k, fpr_hex(body), {'kind': kind, 'leading-zero': True, 'raw': hx(raw[:40])})
        out = bytes(k)
        if out != raw:
            ctx.fail('public-key-reexport-differs', {'kind': kind, 'raw': hx(raw[:60]), 'out': hx(out[:60])})
    ctx.nontrivial(d)


def _deprecated_rsa(ctx, d, pgpy):
    """a real RSA key written by another encoder under the deprecated identifier 2 or 3, public and secret, primary and subkey"""
    pm = dict(pool.mat('rsa1024_0'), alg=d['alg'])
    sm = dict(pool.mat('rsa1024_1'), alg=d['alg'])
    for secret in (False, True):
        body = RK.sec_body(pm) if secret else RK.pub_body(pm)
        sbody = RK.sec_body(sm) if secret else RK.pub_body(sm)
        raw = wire.new_hdr(5 if secret else 6, len(body)) + body
        sraw = wire.new_hdr(7 if secret else 14, len(sbody)) + sbody
        ctx.count('leading_zero_keys')
        for blob, exp, label in ((raw, fpr_hex(RK.pub_body(pm)), 'primary'), (raw + sraw, fpr_hex(RK.pub_body(sm)), 'subkey')):
            try:
                k = pgpy.PGPKey.from_blob(blob)[0]
            except Exception as e:
                ctx.fail('well-formed-public-key-rejected', {'kind': 'rsa alg %d' % d['alg'], 'secret': secret, 'err': repr(e)[:200]})
                continue
            obj = k if label == 'primary' else (list(k.subkeys.values())[0] if k.subkeys else None)
            if obj is None:
                ctx.observe('subkey_without_binding_not_attached')
                continue
            where = {'kind': 'rsa alg %d' % d['alg'], 'secret': secret, 'component': label}
            check_fpr(ctx, obj, exp, where)
            for form, o2 in (('copy', __import__('copy').copy(k)), ('reimported', pgpy.PGPKey.from_blob(bytes(k))[0])) + ((('twin', k.pubkey),) if secret else ()):
                oo = o2 if label == 'primary' else (list(o2.subkeys.values())[0] if o2.subkeys else None)
                if oo is not None:
                    check_fpr(ctx, oo, exp, dict(where, form=form))
            if label == 'primary' and bytes(k) != blob:
                ctx.fail('public-key-reexport-differs', {'kind': 'rsa alg %d' % d['alg'], 'secret': secret, 'raw': hx(blob[:20]), 'out': hx(bytes(k)[:20])})
    ctx.nontrivial(d)


def _generated(ctx, d, pgpy):
    from pgpy.constants import PubKeyAlgorithm as A, EllipticCurveOID as C
    spec = {'ed': (A.EdDSA, C.Ed25519), 'cv': (A.ECDH, C.Curve25519), 'p256': (A.ECDSA, C.NIST_P256), 'k256': (A.ECDSA, C.SECP256K1),
            'p384': (A.ECDH, C.NIST_P384), 'p521': (A.ECDSA, C.NIST_P521), 'rsa1024': (A.RSAEncryptOrSign, 1024), 'dsa1024': (A.DSA, 1024)}[d['alg']]
    for created in (None, datetime(1970, 1, 1, tzinfo=timezone.utc), datetime(2038, 1, 19, 3, 14, 8, tzinfo=timezone.utc),
                    datetime(2021, 3, 14, 1, 59, 26, tzinfo=timezone(timedelta(hours=-8)))):
        k = pgpy.PGPKey.new(spec[0], spec[1], created=created)
        ctx.count('generated_keys')
        ef = exported_fprs(bytes(k))
        check_fpr(ctx, k, ef[0][1], {'generated': d['alg'], 'created': str(created)})
        ef2 = exported_fprs(bytes(k.pubkey))
        if ef2 != [(6, ef[0][1])]:
            ctx.fail('generated-twin-fingerprint', {'alg': d['alg'], 'priv': ef, 'pub': ef2})
        # the same fingerprint for a copy, a copy of the twin and the twin of a copy - before any export or import
        import copy as _copy
        for form, o2 in (('copy', _copy.copy(k)), ('copy-of-twin', _copy.copy(k.pubkey)), ('twin-of-copy', _copy.copy(k).pubkey), ('copy-of-copy', _copy.copy(_copy.copy(k)))):
            check_fpr(ctx, o2, ef[0][1], {'generated': d['alg'], 'created': str(created), 'form': form})
        # and for a subkey generated with its own (zoned) creation time, attached to this key
        if created is not None and spec[0] not in (A.ECDH,):
            from pgpy.constants import KeyFlags
            sub = pgpy.PGPKey.new(A.ECDH, C.Curve25519, created=created + timedelta(hours=1))
            kk = _copy.copy(k)
            kk.add_uid(pgpy.PGPUID.new('generated'), usage={KeyFlags.Certify, KeyFlags.Sign})
            kk.add_subkey(sub, usage={KeyFlags.EncryptCommunications})
            sfp = exported_fprs(bytes(kk))[-1][1]
            for form, o2 in (('attached', kk), ('copy', _copy.copy(kk)), ('twin', kk.pubkey), ('reimported', pgpy.PGPKey.from_blob(bytes(kk))[0])):
                sk2 = list(o2.subkeys.values())[0]
                check_fpr(ctx, sk2, sfp, {'generated-subkey-of': d['alg'], 'created': str(created), 'form': form})
                if list(o2.subkeys)[0] != sfp[-16:]:
                    ctx.fail('subkey-index-key-differs-from-key-id', {'form': form, 'index': list(o2.subkeys)[0], 'expected': sfp[-16:]})
        if created is not None:
            t = int(created.timestamp())
            got = int.from_bytes(wire.split(bytes(k))[0].body[1:5], 'big')
            if got != t:
                ctx.fail('generated-key-creation-time', {'alg': d['alg'], 'asked': t, 'written': got})
    ctx.nontrivial(d)


def _zero_ids(ctx, d, pgpy):
    """identifiers that begin with a zero octet: attributes, emitted issuer / recipient fields and what is read back after transport"""
    from pgpy.constants import KeyFlags, CompressionAlgorithm
    wh = d['where']
    tp, tsig, tenc = pool.created_with_zero(d['key'], wh), pool.created_with_zero('ed25519_1', wh), pool.created_with_zero('cv25519_0', wh)
    exp = {'primary': RK.fpr_of(pool.mat(d['key'], tp)), 'sign': RK.fpr_of(pool.mat('ed25519_1', tsig)), 'enc': RK.fpr_of(pool.mat('cv25519_0', tenc))}
    k = pool.pgpy_bare(d['key'], created=tp)
    k.add_uid(pgpy.PGPUID.new('zero ids'), usage={KeyFlags.Certify, KeyFlags.Sign})
    k.add_subkey(pool.pgpy_bare('ed25519_1', created=tsig), usage={KeyFlags.Sign})
    k.add_subkey(pool.pgpy_bare('cv25519_0', created=tenc), usage={KeyFlags.EncryptCommunications, KeyFlags.EncryptStorage})
    ctx.count('zero_leading_identifiers', 3)
    for form in ('object', 'reloaded', 'public', 'public-reloaded'):
        kk = {'object': k, 'reloaded': pgpy.PGPKey.from_blob(bytes(k))[0], 'public': k.pubkey, 'public-reloaded': pgpy.PGPKey.from_blob(str(k.pubkey))[0]}[form]
        check_fpr(ctx, kk, exp['primary'].hex().upper(), {'zero_in': wh, 'form': form, 'component': 'primary'})
        subs = {str(s_.fingerprint): (kid, s_) for kid, s_ in kk.subkeys.items()}
        for comp in ('sign', 'enc'):
            e = exp[comp].hex().upper()
            if e not in subs:
                ctx.fail('fingerprint-differs-from-reference', {'where': {'zero_in': wh, 'form': form, 'component': comp}, 'got': sorted(subs), 'expected': e})
                continue
            kid, sk = subs[e]
            check_fpr(ctx, sk, e, {'zero_in': wh, 'form': form, 'component': comp})
            if kid != e[-16:]:
                ctx.fail('subkey-index-key-differs-from-key-id', {'zero_in': wh, 'form': form, 'component': comp, 'index': kid, 'expected': e[-16:]})
        if kk.is_public:
            msg = pgpy.PGPMessage.new('to a zero id', compression=CompressionAlgorithm.Uncompressed)
            enc = pgpy.PGPMessage.from_blob(bytes(kk.encrypt(msg)))
            ctx.count('emitted_fields')
            ctx.count('evaluations')
            pks = [p_ for p_ in wire.split(bytes(enc)) if p_.tag == 1]
            if len(pks) != 1 or RPK.pkesk_fields(pks[0].body)['keyid'] != exp['enc'][-8:] or enc.encrypters != {exp['enc'].hex().upper()[-16:]}:
                ctx.fail('emitted-recipient-differs', {'zero_in': wh, 'form': form, 'encrypters': sorted(enc.encrypters), 'expected': hx(exp['enc'][-8:])})
            try:
                if k.decrypt(enc).message != 'to a zero id':
                    raise ValueError('different plaintext')
            except Exception as e_:
                ctx.fail('message-to-zero-leading-key-id-not-decryptable', {'zero_in': wh, 'form': form, 'err': repr(e_)[:160]})
            continue
        for comp, obj in (('primary', kk), ('sign', subs[exp['sign'].hex().upper()][1])):
            s_ = pgpy.PGPSignature.from_blob(bytes(obj.sign('zero id doc')))
            ps = RS.parse_sig(wire.split(bytes(s_))[0].body)
            ctx.count('emitted_fields')
            ctx.count('evaluations')
            e = exp[comp]
            if RS.issuer(ps) != e[-8:] or RS.issuer_fpr(ps) != e:
                ctx.fail('emitted-issuer-differs', {'who': comp, 'zero_in': wh, 'issuer': hx(RS.issuer(ps) or b''), 'issuer_fpr': hx(RS.issuer_fpr(ps) or b''), 'expected': hx(e)})
            if s_.signer != e.hex().upper()[-16:] or s_.signer_fingerprint != e.hex().upper():
                ctx.fail('signature-signer-attribute', {'who': comp, 'zero_in': wh, 'signer': s_.signer, 'signer_fingerprint': str(s_.signer_fingerprint), 'after': 'transport'})
            if not k.pubkey.verify('zero id doc', s_):
                ctx.fail('signature-by-zero-leading-key-id-not-verifiable', {'who': comp, 'zero_in': wh, 'form': form})
    ctx.nontrivial(d)


def _emitted(ctx, d, pgpy):
    """issuer / issuer fingerprint / PKESK recipient ids written by PGPy equal the reference fingerprint of the component used"""
    from pgpy.constants import KeyFlags, CompressionAlgorithm
    sm = pool.mat(d['key'])
    signer = pool.pgpy_key(d['key'], sub='ed25519_1', sub_usage={KeyFlags.Sign}, uid='emit')
    exp_p = RK.fpr_of(sm)
    exp_s = RK.fpr_of(pool.mat('ed25519_1'))
    sub = list(signer.subkeys.values())[0]
    for who, obj, exp in (('primary', signer, exp_p), ('subkey', sub, exp_s)):
        for subject in ('doc', None):
            s = obj.sign(subject) if subject else obj.sign(None)
            ps = RS.parse_sig(wire.split(bytes(s))[0].body)
            ctx.count('emitted_fields')
            ctx.count('evaluations')
            if RS.issuer(ps) != exp[-8:] or RS.issuer_fpr(ps) != exp:
                ctx.fail('emitted-issuer-differs', {'who': who, 'issuer': hx(RS.issuer(ps) or b''), 'issuer_fpr': hx(RS.issuer_fpr(ps) or b''), 'expected': hx(exp)})
            if s.signer != exp.hex().upper()[-16:] or s.signer_fingerprint != exp.hex().upper():
                ctx.fail('signature-signer-attribute', {'who': who, 'signer': s.signer})
    # every other kind of signature the key can issue - on itself and on OTHER people's keys (certifications, and revocations as their designated
    # revoker): the issuer named is the key that made it, never the key it is about
    owner = pool.pgpy_key('ed25519_2' if d['key'] != 'ed25519_2' else 'ed25519_3', sub='cv25519_1', uid='owner of another key', fresh=True)
    with warnings.catch_warnings():
        warnings.simplefilter('ignore')
        owner |= owner.revoker(signer.pubkey)
        osub = list(owner.subkeys.values())[0]
        opub = owner.pubkey          # kept alive: a twin is only weakly referenced by its private half
        issued = [('certify-own-uid', lambda: signer.certify(signer.userids[0])), ('certify-own-key', lambda: signer.certify(signer)),
                  ('certify-other-uid', lambda: signer.certify(opub.userids[0])), ('certify-other-key', lambda: signer.certify(opub)),
                  ('revoke-own-key', lambda: signer.revoke(signer)), ('revoke-own-subkey', lambda: signer.revoke(sub)), ('revoke-own-uid', lambda: signer.revoke(signer.userids[0])),
                  ('designate-revoker', lambda: signer.revoker(owner.pubkey)),
                  ('revoke-other-key-as-designated-revoker', lambda: signer.revoke(opub)), ('revoke-other-subkey-as-designated-revoker', lambda: signer.revoke(osub.pubkey if not osub.is_public else osub)),
                  ('revoke-other-key-object-private', lambda: signer.revoke(owner)), ('bind', lambda: signer.bind(pool.pgpy_bare('ed25519_3'), usage={KeyFlags.Sign}))]
        for what, f in issued:
            try:
                s = f()
            except Exception as e:
                ctx.outcome('issue_refused:%s:%s' % (what, type(e).__name__))
                continue
            ps = RS.parse_sig(wire.split(bytes(s))[0].body)
            ctx.count('emitted_fields')
            ctx.count('issued_signature_kinds')
            ctx.count('evaluations')
            if RS.issuer(ps) != exp_p[-8:] or RS.issuer_fpr(ps) != exp_p:
                ctx.fail('emitted-issuer-differs', {'who': 'primary', 'signature': what, 'issuer': hx(RS.issuer(ps) or b''), 'issuer_fpr': hx(RS.issuer_fpr(ps) or b''), 'expected': hx(exp_p)})
            if s.signer != exp_p.hex().upper()[-16:] or s.signer_fingerprint != exp_p.hex().upper():
                ctx.fail('signature-signer-attribute', {'who': 'primary', 'signature': what, 'signer': s.signer})
    # intended-recipient subpackets: one per recipient, each with that recipient's fingerprint, in the order given (keys and bare fingerprints)
    rcp = [pool.pgpy_key('ed25519_3', uid='ir one').pubkey, pool.pgpy_key('rsa1024_2', uid='ir two').pubkey, pool.pgpy_key('ecdsa_p256_2', uid='ir three').pubkey]
    want_ir = [RK.fpr_of(pool.mat(n_)) for n_ in ('ed25519_3', 'rsa1024_2', 'ecdsa_p256_2')]
    for nrec in (1, 2, 3):
        for as_fpr in (False, True):
            lst = [(r_.fingerprint if as_fpr and j_ % 2 else r_) for j_, r_ in enumerate(rcp[:nrec])]
            s = signer.sign('to several', intended_recipients=lst)
            ps = RS.parse_sig(wire.split(bytes(s))[0].body)
            got_ir = [bytes(b_[1:]) for b_ in RS.sp_get(ps, 35)]
            ctx.count('emitted_fields')
            ctx.count('intended_recipient_lists')
            ctx.count('evaluations')
            if got_ir != want_ir[:nrec] or any(bytes(b_[:1]) != b'\x04' for b_ in RS.sp_get(ps, 35)):
                ctx.fail('emitted-recipient-differs', {'field': 'intended recipient fingerprints', 'got': [hx(x) for x in got_ir], 'expected': [hx(x) for x in want_ir[:nrec]], 'given_as_fingerprint_objects': as_fpr})
    em = pool.mat(d['enc'])
    rc = pool.pgpy_key('ed25519_2', sub=d['enc'], sub_usage={KeyFlags.EncryptCommunications, KeyFlags.EncryptStorage}, uid='recipient')
    esub_exp = RK.fpr_of(em)
    msg = pgpy.PGPMessage.new('to you', compression=CompressionAlgorithm.Uncompressed)
    enc = rc.pubkey.encrypt(msg)
    pks = [p for p in wire.split(bytes(enc)) if p.tag == 1]
    ctx.count('emitted_fields')
    ctx.count('evaluations')
    if len(pks) != 1 or RPK.pkesk_fields(pks[0].body)['keyid'] != esub_exp[-8:]:
        ctx.fail('emitted-recipient-differs', {'got': hx(RPK.pkesk_fields(pks[0].body)['keyid']) if pks else None, 'expected': hx(esub_exp[-8:])})
    if enc.encrypters != {esub_exp.hex().upper()[-16:]}:
        ctx.fail('message-encrypters-attribute', {'got': sorted(enc.encrypters)})
    ctx.nontrivial(d)
