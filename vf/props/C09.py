"""C09 -- primitive wire codecs are exact over their whole domain.

Reference-model monitor: every encode/decode of PGPy's primitive codecs is compared with vf.ref.wire (transcribed
from RFC 4880 4.2, 5.2.3.1, 3.2, 3.5, 3.7.1.3).  Finite domains are enumerated completely.
"""
import os
import time
from datetime import datetime, timezone, timedelta

from ..core import hx
from ..ref import wire

LEVEL = 'exploration'
RULE = ('enumeration of each codec domain in blocks (case = codec family x value block); every value is one evaluation; '
        'a case is non-trivial when it compared at least one value whose encoding is longer than one octet or crosses a width boundary; '
        'distinct = distinct (family, block) descriptors')
ASSUMPTIONS = ['vf.ref.wire transcribes RFC 4880 correctly (cross-checked by its own round-trips and the fixture parse)',
               'CPython int/bytes semantics']
MIN_COUNTERS = {'quick': {'newlen_enc': 70000, 'newlen_dec2': 8192, 'oldlen_dec': 60000, 'splen_dec2': 16000, 'mpi': 4000,
                          's2k_count': 256, 'time': 1000, 'partial': 50, 'growth': 30, 'areas': 60},
                'thorough': {'newlen_enc': 70000, 'partial': 500}}
BUDGET = {'quick': (600, 1500), 'thorough': (1200, 3600)}

BOUNDS = sorted(set([0, 1, 190, 191, 192, 193, 255, 256, 8382, 8383, 8384, 8385, 16319, 16320, 16321, 65535, 65536, 65537] +
                    [(1 << k) + d for k in range(2, 33) for d in (-1, 0, 1) if 0 <= (1 << k) + d <= 0xFFFFFFFF]))


def cases(tier, seed):
    cs = []
    step = 5000
    for lo in range(0, 70001, step):
        cs.append({'f': 'newlen_enc', 'lo': lo, 'hi': min(lo + step, 70001)})
        cs.append({'f': 'splen_enc', 'lo': lo, 'hi': min(lo + step, 70001)})
    cs.append({'f': 'newlen_enc_bounds'})
    cs.append({'f': 'newlen_dec1'})
    for hi in range(192, 224, 4):
        cs.append({'f': 'newlen_dec2', 'lo': hi, 'hi': hi + 4})
    cs.append({'f': 'newlen_dec5', 'seed': seed})
    cs.append({'f': 'oldlen_dec', 'w': 1})
    for lo in range(0, 65536, 8192):
        cs.append({'f': 'oldlen_dec', 'w': 2, 'lo': lo, 'hi': lo + 8192})
    cs.append({'f': 'oldlen_dec', 'w': 4})
    cs.append({'f': 'oldlen_enc'})
    cs.append({'f': 'indeterminate'})
    cs.append({'f': 'splen_dec1'})
    for lo in range(192, 255, 4):
        cs.append({'f': 'splen_dec2', 'lo': lo, 'hi': min(lo + 4, 255)})
    cs.append({'f': 'splen_dec5', 'seed': seed})
    for lo in range(0, 4201, 300):
        cs.append({'f': 'mpi', 'lo': lo, 'hi': min(lo + 300, 4201), 'seed': seed})
    cs.append({'f': 'mpi_noncanonical', 'seed': seed})
    cs.append({'f': 's2k_count'})
    for tz in ('UTC', 'America/New_York', 'Asia/Kolkata', 'Pacific/Kiritimati'):
        cs.append({'f': 'time', 'tz': tz, 'seed': seed, 'n': 400 if tier == 'quick' else 5000})
    cs.append({'f': 'time_aware', 'seed': seed})
    # partial lengths: first chunk 2^9..2^16, up to 6 chunks, total <= 2^17
    pc = []
    for first in range(9, 17):
        pc.append([first])
        for second in range(0, 17, 3 if tier == 'quick' else 1):
            if (1 << first) + (1 << second) <= (1 << 17):
                pc.append([first, second])
    r = __import__('random').Random(seed * 7919 + 1)
    for _ in range(40 if tier == 'quick' else 1500):
        ch = [r.randint(9, 14)]
        while len(ch) < r.randint(2, 6):
            ch.append(r.randint(0, 13))
        if sum(1 << p for p in ch) <= (1 << 17):
            pc.append(ch)
    for i in range(0, len(pc), 8):
        cs.append({'f': 'partial', 'chunks': pc[i:i + 8], 'seed': seed + i})
    for fmt in ('old0', 'old1', 'old2', 'new'):
        for tag in (13, 11, 2, 8, 61, 17):
            cs.append({'f': 'growth', 'fmt': fmt, 'tag': tag})
    # the two-octet octet counts in front of the subpacket areas of signatures PGPy builds, with subpackets on either side of each length-form boundary
    ns = [20, 150, 189, 190, 191, 192, 193, 194, 255, 256, 257, 1000, 8381, 8382, 8383, 8384, 8385, 8386, 20000, 60000]
    for i in range(0, len(ns), 4):
        cs.append({'f': 'areas', 'ns': ns[i:i + 4]})
    return cs


def _pg():
    from pgpy.packet.types import Header, MPI
    from pgpy.packet.subpackets.types import Header as SPHeader
    from pgpy.packet import Packet
    from pgpy.packet.fields import String2Key
    return Header, MPI, SPHeader, Packet, String2Key


def run_case(ctx, d):
    Header, MPI, SPHeader, Packet, String2Key = _pg()
    f = d['f']
    hard = False

    def newhdr_bytes(tag, n):
        h = Header()
        h.tag = tag
        h.length = n
        return bytes(h.__bytearray__()), len(h)

    if f in ('newlen_enc', 'newlen_enc_bounds'):
        vals = range(d['lo'], d['hi']) if f == 'newlen_enc' else BOUNDS
        for n in vals:
            got, ln = newhdr_bytes(11, n)
            ctx.count('newlen_enc')
            ctx.count('evaluations')
            exp = wire.new_hdr(11, n)
            if got != exp or ln != len(exp):
                ctx.fail('newlen-encode', {'n': n, 'got': hx(got), 'expected': hx(exp), 'len': ln})
            hard = hard or n >= 192
            # static helper too
            e2 = bytes(Header.encode_length(n))
            if e2 != wire.new_len_enc(n):
                ctx.fail('encode_length', {'n': n, 'got': hx(e2)})
    elif f == 'splen_enc':
        for n in range(max(1, d['lo']), d['hi']):
            h = SPHeader()
            h.typeid = 100
            h.length = n
            got = bytes(h.__bytearray__())
            ctx.count('splen_enc')
            ctx.count('evaluations')
            try:
                v, j = wire.sp_len_dec(got, 0)
            except wire.Malformed:
                v, j = None, None
            if v != n or j != len(got) - 1 or got[-1] != 100 or len(h) != len(got):
                ctx.fail('subpacket-length-encode', {'n': n, 'got': hx(got), 'ref_decodes_to': v})
            hard = hard or n >= 192
    elif f in ('newlen_dec1', 'newlen_dec2', 'newlen_dec5'):
        if f == 'newlen_dec1':
            encs = [bytes([o]) for o in range(192)]
        elif f == 'newlen_dec2':
            encs = [bytes([a, b]) for a in range(d['lo'], d['hi']) for b in range(256)]
        else:
            r = ctx.rng('dec5', d['seed'])
            vs = BOUNDS + [r.randrange(1 << 32) for _ in range(300)]
            encs = [b'\xff' + v.to_bytes(4, 'big') for v in vs]
        for e in encs:
            exp, _, part = wire.new_len_dec(e, 0)
            buf = bytearray(b'\xcb' + e + b'ZZ')
            h = Header()
            h.parse(buf)
            ctx.count(f)
            ctx.count('evaluations')
            if h.length != exp or bytes(buf) != b'ZZ' or h.tag != 11:
                ctx.fail('newlen-decode', {'enc': hx(e), 'got': h.length, 'expected': exp, 'rest': hx(buf)})
        hard = f != 'newlen_dec1'
    elif f == 'oldlen_dec':
        w = d['w']
        if w == 1:
            vals = range(256)
        elif w == 2:
            vals = range(d['lo'], d['hi'])
        else:
            vals = BOUNDS
        lt = {1: 0, 2: 1, 4: 2}[w]
        for n in vals:
            e = wire.old_hdr(6, n, lt)
            buf = bytearray(e + b'ZZ')
            h = Header()
            h.parse(buf)
            ctx.count('oldlen_dec')
            ctx.count('evaluations')
            if h.length != n or bytes(buf) != b'ZZ' or h.tag != 6:
                ctx.fail('oldlen-decode', {'enc': hx(e), 'got': h.length, 'expected': n})
            back = bytes(h.__bytearray__())
            if back != e:
                ctx.fail('oldlen-reencode', {'enc': hx(e), 'got': hx(back)})
        hard = True
    elif f == 'oldlen_enc':
        # an old-format header whose length is changed through the API must still decode to that length
        for lt in (0, 1, 2):
            for n in BOUNDS:
                buf = bytearray(wire.old_hdr(13, 5, lt) + b'ZZ')
                h = Header()
                h.parse(buf)
                h.length = n
                ctx.count('oldlen_enc')
                ctx.count('evaluations')
                try:
                    got = bytes(h.__bytearray__())
                except Exception as e:
                    ctx.outcome('oldlen_enc_refused:' + type(e).__name__)
                    continue
                ok = False
                if n <= 70000:
                    try:
                        p = wire.split(got + b'\x00' * n)
                        ok = len(p) == 1 and len(p[0].body) == n and p[0].tag == 13
                    except wire.Malformed:
                        ok = False
                else:
                    # do not allocate: decode the header by hand
                    b0 = got[0]
                    if b0 & 0x40:
                        v, j, part = wire.new_len_dec(got, 1)
                        ok = (v == n and j == len(got) and not part)
                    else:
                        ww = {0: 1, 1: 2, 2: 4}.get(b0 & 3)
                        ok = ww is not None and len(got) == 1 + ww and int.from_bytes(got[1:], 'big') == n
                if not ok:
                    ctx.fail('oldlen-narrow-field', {'lt': lt, 'n': n, 'got': hx(got[:8])})
        hard = True
    elif f == 'indeterminate':
        for n in (0, 1, 5, 300, 70000):
            buf = bytearray(wire.old_hdr(11, 0, 3) + b'b\x00\x00\x00\x00\x00' + b'x' * n)
            p = Packet(buf)
            ctx.count('indeterminate')
            ctx.count('evaluations')
            if len(buf) != 0 or bytes(p._contents) != b'x' * n:
                ctx.fail('indeterminate-length', {'n': n, 'left': len(buf)})
            out = bytes(p.__bytearray__())
            try:
                q = wire.split(out)
                if len(q) != 1 or q[0].body != b'b\x00\x00\x00\x00\x00' + b'x' * n:
                    ctx.fail('indeterminate-reencode', {'n': n, 'out': hx(out[:12])})
            except wire.Malformed as e:
                ctx.fail('indeterminate-reencode', {'n': n, 'out': hx(out[:12]), 'err': str(e)})
        hard = True
    elif f in ('splen_dec1', 'splen_dec2', 'splen_dec5'):
        if f == 'splen_dec1':
            encs = [bytes([o]) for o in range(1, 192)]
        elif f == 'splen_dec2':
            encs = [bytes([a, b]) for a in range(d['lo'], d['hi']) for b in range(256)]
        else:
            r = ctx.rng('spdec5', d['seed'])
            encs = [b'\xff' + v.to_bytes(4, 'big') for v in [1, 2, 191, 192, 16319, 16320, 65535, 65536, 1 << 24, (1 << 32) - 1] + [r.randrange(1, 1 << 32) for _ in range(200)]]
        for e in encs:
            exp, _ = wire.sp_len_dec(e, 0)
            buf = bytearray(e + b'\xe4' + b'ZZ')
            h = SPHeader()
            h.parse(buf)
            ctx.count(f)
            ctx.count('evaluations')
            if h.length != exp or bytes(buf) != b'ZZ' or h.typeid != 100 or h.critical is not True:
                ctx.fail('subpacket-length-decode', {'enc': hx(e), 'got': h.length, 'expected': exp, 'rest': hx(buf)})
        hard = f != 'splen_dec1'
    elif f == 'mpi':
        r = ctx.rng('mpi', d['seed'], d['lo'])
        for b in range(d['lo'], d['hi']):
            vals = {0} if b == 0 else {1 << (b - 1), (1 << b) - 1, (1 << (b - 1)) | r.getrandbits(b)}
            for v in vals:
                ctx.count('mpi')
                ctx.count('evaluations')
                m = MPI(v)
                enc = bytes(m.to_mpibytes())
                exp = wire.mpi_enc(v)
                if enc != exp or len(m) != len(exp) or m.byte_length() != len(exp) - 2:
                    ctx.fail('mpi-encode', {'bits': b, 'v': hex(v)[:40], 'got': hx(enc[:8]), 'expected': hx(exp[:8]), 'len': len(m)})
                buf = bytearray(exp + b'ZZ')
                m2 = MPI(buf)
                if int(m2) != v or bytes(buf) != b'ZZ':
                    ctx.fail('mpi-decode', {'bits': b, 'v': hex(v)[:40], 'got': hex(int(m2))[:40], 'rest': hx(buf[:8])})
        hard = True
    elif f == 'mpi_noncanonical':
        # declared bit count larger than the value needs (leading zero bits): value must still decode, and consume by the declared count
        r = ctx.rng('mpinc', d['seed'])
        for _ in range(300):
            bits = r.randint(1, 600)
            v = r.getrandbits(r.randint(0, bits))
            l = (bits + 7) // 8
            enc = bits.to_bytes(2, 'big') + v.to_bytes(l, 'big')
            buf = bytearray(enc + b'ZZ')
            m = MPI(buf)
            ctx.count('mpi_noncanonical')
            ctx.count('evaluations')
            if int(m) != v or bytes(buf) != b'ZZ':
                ctx.fail('mpi-decode-noncanonical', {'enc': hx(enc[:10]), 'got': hex(int(m))[:40]})
        hard = True
    elif f == 's2k_count':
        for c in range(256):
            s = String2Key()
            s.count = c
            ctx.count('s2k_count')
            ctx.count('evaluations')
            if s.count != wire.s2k_count(c):
                ctx.fail('s2k-count', {'c': c, 'got': s.count, 'expected': wire.s2k_count(c)})
            # stored form round trip
            s.usage = 254
            s.encalg = 9
            s.specifier = 3
            s.halg = 8
            s.salt = bytearray(b'saltsalt')
            s.iv = bytearray(16)
            b = bytes(s.__bytearray__())
            if b[12] != c:
                ctx.fail('s2k-count-stored', {'c': c, 'bytes': hx(b)})
        hard = True
    elif f == 'time':
        os.environ['TZ'] = d['tz']
        time.tzset()
        try:
            _times(ctx, d)
        finally:
            os.environ['TZ'] = 'UTC'
            time.tzset()
        hard = True
    elif f == 'time_aware':
        _times_aware(ctx, d)
        hard = True
    elif f == 'partial':
        r = ctx.rng('partial', d['seed'])
        for ch in d['chunks']:
            tot = sum(1 << p for p in ch)
            for tail in (0, 1, 191, 192, 300):
                body = b'b\x00' + b'\x00\x00\x00\x01' + bytes(r.getrandbits(8) for _ in range(64)) * ((tot + tail) // 64 + 1)
                body = body[:tot + tail] if tot + tail >= 6 else body[:6]
                if len(body) < tot:
                    continue
                for final in ('min', 5):
                    enc = wire.partial_body(11, body, ch, final)
                    buf = bytearray(enc + b'\xb4\x01Z')
                    ctx.count('partial')
                    ctx.count('evaluations')
                    try:
                        p = Packet(buf)
                    except Exception as e:
                        ctx.fail('partial-length-rejected', {'chunks': ch, 'tail': tail, 'final': final, 'err': repr(e)[:200]})
                        continue
                    if bytes(buf) != b'\xb4\x01Z' or p.header.length != len(body) or bytes(p._contents) != body[6:]:
                        ctx.fail('partial-length-decode', {'chunks': ch, 'tail': tail, 'final': final, 'got_len': p.header.length,
                                                           'expected': len(body), 'left': len(buf)})
                        continue
                    out = bytes(p.__bytearray__())
                    try:
                        q = wire.split(out)
                        good = len(q) == 1 and q[0].body == body and q[0].tag == 11
                    except wire.Malformed:
                        good = False
                    if not good:
                        ctx.fail('partial-length-reencode', {'chunks': ch, 'tail': tail, 'out': hx(out[:8])})
        hard = True
    elif f == 'growth':
        _growth(ctx, d)
        hard = True
    elif f == 'areas':
        _areas(ctx, d)
        hard = True
    else:
        raise ValueError(f)
    if hard:
        ctx.nontrivial(d)
    ctx.sample(d)
    ctx.flags['exhaustive'] = True


def _times(ctx, d):
    from pgpy.packet import Packet
    from pgpy.packet.subpackets import Signature as SignatureSP
    r = ctx.rng('time', d['seed'], d['tz'])
    ts = [0, 1, 2**31 - 1, 2**31, 2**31 + 1, 2**32 - 1, 1109484000, 1110088800, 1130648400, 1130652000, 1667714400, 946684799, 946684800]
    ts += [r.randrange(1 << 32) for _ in range(d['n'])]
    edpt = bytes.fromhex('092b06010401da470f01') + wire.mpi_of_bytes(b'\x40' + bytes(range(32)))
    for t in ts:
        ctx.count('time')
        ctx.count('evaluations', 4)
        t4 = t.to_bytes(4, 'big')
        # public key packet creation time
        body = b'\x04' + t4 + b'\x16' + edpt
        raw = wire.new_hdr(6, len(body)) + body
        p = Packet(bytearray(raw))
        exp_dt = datetime(1970, 1, 1, tzinfo=timezone.utc) + timedelta(seconds=t)
        if p.created != exp_dt:
            ctx.fail('key-created-decode', {'t': t, 'got': str(p.created), 'tz': d['tz']})
        if bytes(p.__bytearray__()) != raw:
            ctx.fail('key-created-encode', {'t': t, 'got': hx(bytes(p.__bytearray__())[3:7]), 'tz': d['tz']})
        # literal mtime
        lb = b'b\x00' + t4 + b'x'
        lraw = wire.new_hdr(11, len(lb)) + lb
        lp = Packet(bytearray(lraw))
        if lp.mtime != exp_dt or bytes(lp.__bytearray__()) != lraw:
            ctx.fail('literal-mtime', {'t': t, 'got': str(lp.mtime), 'tz': d['tz']})
        # signature creation time / expiration subpackets
        for typ in (2, 3, 9):
            sraw = wire.subpacket(typ, t4)
            sp = SignatureSP(bytearray(sraw))
            val = sp.created if typ == 2 else sp.expires
            exp = exp_dt if typ == 2 else timedelta(seconds=t)
            if val != exp or bytes(sp.__bytearray__()) != sraw:
                ctx.fail('subpacket-time', {'type': typ, 't': t, 'got': str(val), 'out': hx(bytes(sp.__bytearray__())), 'tz': d['tz']})


def _times_aware(ctx, d):
    """tz-aware datetimes handed to the API must be written as the instant they denote"""
    import pgpy
    from pgpy.constants import PubKeyAlgorithm, EllipticCurveOID
    from pgpy.packet.packets import LiteralData
    r = ctx.rng('aware', d['seed'])
    for i in range(40):
        off = r.choice([-12, -5, -3.5, 0, 1, 5.5, 9, 14])
        t = r.randrange(100000, (1 << 32) - 100000)
        dt = datetime.fromtimestamp(t, timezone(timedelta(hours=off)))
        ctx.count('time_aware')
        ctx.count('evaluations', 3)
        k = pgpy.PGPKey.new(PubKeyAlgorithm.EdDSA, EllipticCurveOID.Ed25519, created=dt)
        pk = wire.split(bytes(k))[0]
        got = int.from_bytes(pk.body[1:5], 'big')
        if got != t:
            ctx.fail('key-created-aware-datetime', {'t': t, 'utcoffset_h': off, 'written': got})
        lit = LiteralData()
        lit.mtime = dt
        lit.update_hlen()
        got = int.from_bytes(wire.split(bytes(lit.__bytearray__()))[0].body[2:6], 'big')
        if got != t:
            ctx.fail('literal-mtime-aware-datetime', {'t': t, 'utcoffset_h': off, 'written': got})
        s = k.sign('x', created=dt) if False else None
        from pgpy.packet.subpackets.signature import CreationTime
        c = CreationTime()
        c.created = dt
        c.update_hlen()
        got = int.from_bytes(bytes(c.__bytearray__())[2:6], 'big')
        if got != t:
            ctx.fail('sig-created-aware-datetime', {'t': t, 'utcoffset_h': off, 'written': got})


def _areas(ctx, d):
    """signatures PGPy builds with a subpacket of exactly n octets (type octet included) in the signed area - alone, twice, and next to short ones:
    the reference reads each area by its two-octet count, the subpackets must fill it exactly, and the signature still verifies after a reload"""
    import warnings
    import pgpy
    from .. import pool
    from ..ref import sig as RS
    with warnings.catch_warnings():
        warnings.simplefilter('ignore')
        k = pool.pgpy_key('ed25519_0', uid='areas')
        pub = k.pubkey
        for n in d['ns']:
            v = n - 12        # notation subpacket: type 1 + flags 4 + two lengths 4 + name 3 + value
            u = n - 1         # policy URI subpacket: type 1 + text
            variants = [('notation', dict(notation={'n@x': 'v' * v})), ('policy', dict(policy_uri='p' * u)),
                        ('two', dict(notation={'n@x': 'v' * v, 'm@x': 'w' * v} if 2 * n < 65000 else {'n@x': 'v' * v}, policy_uri='https://short.example/')),
                        ('both-long', dict(notation={'n@x': 'v' * v}, policy_uri='p' * min(u, 65000 - n)) if 2 * n < 65000 else None)]
            for label, kw in variants:
                if kw is None:
                    continue
                ctx.count('areas')
                ctx.count('evaluations')
                where = {'subpacket_octets': n, 'variant': label}
                try:
                    s = k.sign('areas document', **kw)
                    out = bytes(s)
                except Exception as e:
                    ctx.outcome('areas_refused:' + type(e).__name__)
                    continue
                try:
                    pk = wire.split(out)
                    assert len(pk) == 1 and pk[0].tag == 2
                    ps = RS.parse_sig(pk[0].body)
                    lens = sorted(len(raw) - (1 if len(b) + 1 < 192 else (2 if len(b) + 1 < 8384 else 5)) for t, c, b, raw in ps['hsp'])
                    if n not in lens:
                        ctx.fail('signed-area-does-not-hold-the-subpacket-that-was-asked-for', dict(where, sizes=lens))
                except (wire.Malformed, AssertionError, Exception) as e:
                    ctx.fail('subpacket-area-count-wrong', dict(where, err=repr(e)[:160], head=hx(out[:12])))
                    continue
                try:
                    s2 = pgpy.PGPSignature.from_blob(out)
                    if bytes(s2) != out:
                        ctx.fail('signature-octets-change-on-reload', dict(where, lens=[len(out), len(bytes(s2))]))
                    if not pub.verify('areas document', s2):
                        ctx.fail('signature-fails-after-reload', where)
                except Exception as e:
                    ctx.fail('subpacket-area-count-wrong', dict(where, err='reload: ' + repr(e)[:140]))


def _photo(octets):
    """reference decode of one user-attribute packet holding one image subpacket -> (image header, image) or None"""
    try:
        q = wire.split(bytes(octets))
        sps = wire.subpackets(q[0].body)
    except wire.Malformed:
        return None
    if len(q) != 1 or len(sps) != 1 or sps[0][0] != 1:
        return None
    return bytes(sps[0][2][:16]), bytes(sps[0][2][16:])


def _growth(ctx, d):
    """parse a packet, change its body length across every width boundary through the public attributes, update_hlen,
    and let the reference re-decode what is written"""
    from pgpy.packet import Packet
    tag, fmt = d['tag'], d['fmt']
    sizes = [0, 1, 100, 191, 192, 193, 255, 256, 257, 8383, 8384, 8385, 65535, 65536, 65537, 70000]

    def hdr(n):
        if fmt == 'new':
            return wire.new_hdr(tag, n)
        if tag > 15:
            return None
        try:
            return wire.old_hdr(tag, n, int(fmt[3]))
        except ValueError:
            return None

    for start in (3, 200, 300, 9000, 66000):
        for target in sizes:
            if tag == 13:
                body0, mk = b'u' * start, (lambda p, n: setattr(p, 'uid', 'v' * n))
                expect = lambda n: b'v' * n
            elif tag == 11:
                body0 = b'b\x00\x00\x00\x00\x00' + b'c' * start
                mk = lambda p, n: setattr(p, '_contents', bytearray(b'd' * n))
                expect = lambda n: b'b\x00\x00\x00\x00\x00' + b'd' * n
            elif tag == 61:
                body0, mk = b'o' * start, (lambda p, n: setattr(p, 'payload', bytearray(b'q' * n)))
                expect = lambda n: b'q' * n
            elif tag == 8:
                inner = wire.new_hdr(11, 6 + start) + b'b\x00\x00\x00\x00\x00' + b'c' * start
                body0 = b'\x00' + inner

                def mk(p, n):
                    p.packets[0]._contents = bytearray(b'e' * n)
                    p.packets[0].update_hlen()
                expect = lambda n: b'\x00' + wire.new_hdr(11, 6 + n) + b'b\x00\x00\x00\x00\x00' + b'e' * n
            elif tag == 17:
                # a photo: one image subpacket (type 1, version-1 header of 16 octets); the body is replaced through the public attribute
                ih = b'\x10\x00\x01\x01' + bytes(12)
                body0 = wire.sp_len_enc(1 + 16 + start) + b'\x01' + ih + b'\xff\xd8' + b'i' * (start - 2)

                def mk(p, n):
                    p.image.image = bytearray(b'\xff\xd8' + b'j' * n)
                    p.image.update_hlen()
                expect = lambda n: wire.sp_len_enc(1 + 16 + 2 + n) + b'\x01' + ih + b'\xff\xd8' + b'j' * n
            elif tag == 2:
                continue
            h = hdr(len(body0))
            if h is None:
                continue
            try:
                if tag == 17:
                    # built, not received: a received attribute subpacket is re-emitted as it was on the wire whatever is assigned later
                    # (the repair for C05/C08), so the editable photo is the one PGPUID.new makes; it is measured once before the edit
                    if fmt != 'new':
                        continue
                    import pgpy
                    p = pgpy.PGPUID.new(bytearray(b'\xff\xd8' + b'i' * (start - 2)))._uid
                    enc = ((_photo(bytes(p.__bytearray__())) or (b'',))[0][3:4]) or b'\x00'   # the format octet PGPy chose (0 = not recognised)
                    ih = b'\x10\x00\x01' + enc + bytes(12)
                    body0 = wire.sp_len_enc(1 + 16 + start) + b'\x01' + ih + b'\xff\xd8' + b'i' * (start - 2)
                    expect = lambda n, ih=ih: wire.sp_len_enc(1 + 16 + 2 + n) + b'\x01' + ih + b'\xff\xd8' + b'j' * n
                    if _photo(bytes(p.__bytearray__())) != (ih, b'\xff\xd8' + b'i' * (start - 2)):
                        ctx.fail('length-field-after-growth', {'fmt': fmt, 'tag': tag, 'start': len(body0), 'target': 'as built', 'header_written': hx(bytes(p.__bytearray__())[:6])})
                        continue
                else:
                    p = Packet(bytearray(h + body0))
            except Exception:
                # header form cannot carry this start length (e.g. one-octet old length and 300 octets)
                continue
            try:
                mk(p, target)
                p.update_hlen()
                out = bytes(p.__bytearray__())
            except Exception as e:
                ctx.outcome('growth_refused:' + type(e).__name__)
                continue
            ctx.count('growth')
            ctx.count('evaluations')
            exp = expect(target)
            try:
                q = wire.split(out + b'\xb4\x01Z')
                good = len(q) == 2 and q[0].body == exp and q[0].tag == tag and q[1].body == b'Z'
                if tag == 17:
                    # the subpacket length may use any legal form (PGPy writes five octets from 8 384 on); what it frames must be the new photo
                    good = len(q) == 2 and q[0].tag == 17 and q[1].body == b'Z' and _photo(out) == (ih, b'\xff\xd8' + b'j' * target)
            except wire.Malformed:
                good = False
            if not good:
                ctx.fail('length-field-after-growth', {'fmt': fmt, 'tag': tag, 'start': len(body0), 'target': len(exp), 'header_written': hx(out[:6])})
