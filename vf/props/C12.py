"""C12 -- string-to-key derivation equals RFC 4880 3.7.1.

Reference-model monitor: String2Key.derive_key() of the real code against vf.ref.sym.s2k (streaming, written from the RFC text),
over specifier x hash x key size x coded count x passphrase x salt; plus the stored specifier round trip and a GnuPG
cross-check of the reference itself (gpg -c --s2k-*) when gpg is present.
"""
from ..core import hx
from ..ref import sym, wire

LEVEL = 'exploration'
RULE = ('case = (specifier, hash, cipher/key size, coded count, passphrase class, salt); one evaluation per derive_key call compared '
        'with the reference; non-trivial = needs more than one hash context, or count shorter than salt+passphrase, or count not a multiple '
        'of len(salt+passphrase), or empty/long/non-ASCII passphrase; distinct = distinct case descriptors')
ASSUMPTIONS = ['hashlib digests are correct', 'vf.ref.sym.s2k follows RFC 4880 3.7.1 (cross-checked against gpg symmetric encryption when gpg is available)']
MIN_COUNTERS = {'derive_compared': 300, 'multi_context': 50, 'count_values': 200, 'count_boundary_window': 300, 'end_to_end_derivations': 50, 'same_specifier_sequence_steps': 80}
BUDGET = {'quick': (600, 1500), 'thorough': (1500, 3600)}

HASHES = [1, 2, 3, 8, 9, 10, 11]
CIPHERS = [3, 2, 9, 8, 7]   # 128, 192, 256, 192, 128 bit keys
PASSES = [('empty', ''), ('one', 'x'), ('seven', 'abcdefg'), ('eight', 'abcdefgh'), ('p55', 'a' * 55), ('p56', 'b' * 56),
          ('p63', 'c' * 63), ('p64', 'd' * 64), ('p65', 'e' * 65), ('p1000', 'f' * 1000), ('p5000', 'gh' * 2500),
          ('utf8', 'pässwörd 日本\U0001F600'), ('bytes', None)]


def cases(tier, seed):
    import random
    r = random.Random(seed)
    cs = []
    salts = [bytes(range(8)), b'\x00' * 8, b'\xff' * 8]
    # full product on small counts
    for spec in (0, 1, 3):
        for h in HASHES:
            for c in CIPHERS[:3]:
                for pi, (pn, _) in enumerate(PASSES):
                    cnt = r.choice([0, 1, 0x10, 0x23, 0x40, 0x60]) if spec == 3 else None
                    cs.append({'spec': spec, 'h': h, 'c': c, 'p': pi, 'salt': hx(r.choice(salts) if r.random() < .5 else bytes(r.getrandbits(8) for _ in range(8))), 'cnt': cnt})
    # every coded count
    hs = [2] if tier == 'quick' else HASHES
    for h in hs:
        for cnt in range(256):
            if tier == 'quick' and cnt > 0xC0 and cnt % 8 != 7:
                continue
            cs.append({'spec': 3, 'h': h, 'c': 9, 'p': 2 + cnt % 3, 'salt': hx(bytes(r.getrandbits(8) for _ in range(8))), 'cnt': cnt})
    # boundary window: len(passphrase) and len(salt+passphrase) just below / at / above the decoded count
    for cnt in (0, 1, 2, 15, 16, 17, 0x20):
        n = (16 + (cnt & 15)) << ((cnt >> 4) + 6)
        for h, c in ((8, 7), (2, 9), (1, 9)):
            for plen in list(range(n - 18, n + 3)):
                cs.append({'spec': 3, 'h': h, 'c': c, 'plen': plen, 'salt': hx(bytes(r.getrandbits(8) for _ in range(8))), 'cnt': cnt})
    # every cipher id PGPy knows, to cover the key-size table
    for c in (1, 2, 3, 4, 7, 8, 9, 10, 11, 12, 13):
        cs.append({'spec': 3, 'h': 1, 'c': c, 'p': 3, 'salt': hx(salts[0]), 'cnt': 0x20})
    cs.append({'stored': True})
    for i in range(6):
        cs.append({'reuse': i, 'seed': seed})
    # the derivation as the public operations use it: what a message / a protected key stores must open with the reference derivation over the
    # UTF-8 octets of exactly the passphrase the caller gave (no trimming, folding or Unicode normalisation on the way), and the other way round
    for j in range(len(E2E_PASSES)):
        for way in ('message-out', 'message-in', 'key-out', 'key-in'):
            cs.append({'e2e': way, 'pw': j})
    # one process opening a run of foreign messages that share passphrase and specifier octets but need keys of different sizes (and the same
    # for protected keys): nothing derived for one may be handed to the next
    for spec in (0, 1, 3):
        for j in range(3):
            cs.append({'seq': spec, 'j': j})
    cs.append({'gpg': True})
    return cs


E2E_PASSES = ['plain ascii', 'Cafe\u0301 (decomposed)', 'Caf\u00e9 (composed)', '\u212bngstr\u00f6m \u2126 \ufb01', '\u1112\u1161\u11ab jamo', ' leading and trailing ', 'newline at end\n',
              'tab\tinside', 'UPPER lower', '\U0001f511 key emoji', 'x' * 200, b'raw \xff\xfe octets', b'ascii as bytes', '\u00df\u017f\u0131 case-fold traps', 'a\u200bb zero width']


def run_case(ctx, d):
    from pgpy.packet.fields import String2Key
    if d.get('stored'):
        return _stored(ctx)
    if 'reuse' in d:
        return _reuse(ctx, d)
    if d.get('gpg'):
        return _gpg(ctx)
    if 'e2e' in d:
        return _e2e(ctx, d)
    if 'seq' in d:
        return _seq(ctx, d)
    if 'plen' in d:
        pn, pw = 'len%d' % d['plen'], bytes((i * 7 + 3) % 251 for i in range(d['plen']))
        ctx.count('count_boundary_window')
    else:
        pn, pw = PASSES[d['p']]
    if pw is None:
        pw = bytes(ctx.rng('pw', d['salt']).getrandbits(8) for _ in range(40))
    salt = bytes.fromhex(d['salt'])
    s = String2Key()
    s.usage = 255
    s.encalg = d['c']
    s.specifier = d['spec']
    s.halg = d['h']
    if d['spec'] in (1, 3):
        s.salt = bytearray(salt)
    if d['spec'] == 3:
        s.count = d['cnt']
    nkey = {1: 16, 2: 24, 3: 16, 4: 16, 7: 16, 8: 24, 9: 32, 10: 32, 11: 16, 12: 24, 13: 32}[d['c']]
    exp = sym.s2k(d['spec'], d['h'], salt, d['cnt'], pw, nkey)
    ctx.count('evaluations')
    try:
        got = bytes(s.derive_key(pw))
    except Exception as e:
        ctx.fail('derive-key-raised', {'case': d, 'error': repr(e)[:200]})
        return
    ctx.count('derive_compared')
    if d['spec'] == 3:
        ctx.count('count_values')
    hl = __import__('hashlib').new(sym.HASHNAME[d['h']]).digest_size
    unit = len(salt if d['spec'] else b'') + len(pw.encode('utf-8') if isinstance(pw, str) else pw)
    multi = nkey > hl
    if multi:
        ctx.count('multi_context')
    short = d['spec'] == 3 and wire.s2k_count(d['cnt']) < unit
    ragged = d['spec'] == 3 and unit and wire.s2k_count(d['cnt']) % unit != 0
    if multi or short or ragged or pn in ('empty', 'utf8', 'p5000', 'bytes') or 'plen' in d:
        ctx.nontrivial(d)
    if short:
        ctx.count('count_shorter_than_input')
    if got != exp:
        ctx.fail('s2k-mismatch', {'case': d, 'passphrase': pn, 'got': hx(got), 'expected': hx(exp)})
    if len(ctx.samples) < 4:
        ctx.sample({'case': d, 'passphrase': pn, 'key': hx(got)})


def _reuse(ctx, d):
    """one String2Key object used for a sequence of derivations with changing passphrase / salt / count / hash / cipher: every result must be the
    reference value for the parameters in force at that moment (no value may survive from an earlier derivation)"""
    from pgpy.packet.fields import String2Key
    r = ctx.rng('reuse', d['reuse'], d['seed'])
    s = String2Key()
    s.usage = 254
    state = {'spec': 3, 'h': 8, 'c': 9, 'salt': b'saltsalt', 'cnt': 0x10, 'pw': 'first'}
    nk = {7: 16, 8: 24, 9: 32, 3: 16, 2: 24}
    for step in range(40):
        what = r.choice(['pw', 'pw', 'salt', 'cnt', 'h', 'c', 'spec', 'same'])
        if what == 'pw':
            state['pw'] = r.choice(['first', 'second', '', 'first', 'x' * 70])
        elif what == 'salt':
            state['salt'] = bytes(r.getrandbits(8) for _ in range(8))
        elif what == 'cnt':
            state['cnt'] = r.choice([0, 0x10, 0x20, 0x31])
        elif what == 'h':
            state['h'] = r.choice([2, 8, 10, 1])
        elif what == 'c':
            state['c'] = r.choice([7, 8, 9, 3, 2])
        elif what == 'spec':
            state['spec'] = r.choice([0, 1, 3])
        s.encalg = state['c']
        s.specifier = state['spec']
        s.halg = state['h']
        s.salt = bytearray(state['salt'])
        s.count = state['cnt']
        got = bytes(s.derive_key(state['pw']))
        exp = sym.s2k(state['spec'], state['h'], state['salt'], state['cnt'], state['pw'], nk[state['c']])
        ctx.count('evaluations')
        ctx.count('derive_compared')
        ctx.count('reuse_steps')
        if got != exp:
            ctx.fail('s2k-object-reuse-mismatch', {'step': step, 'changed': what, 'state': {k: (hx(v) if isinstance(v, bytes) else v) for k, v in state.items()}, 'got': hx(got), 'expected': hx(exp)})
    ctx.nontrivial(d)


def _e2e(ctx, d):
    import warnings
    import pgpy
    from pgpy.constants import SymmetricKeyAlgorithm, HashAlgorithm, CompressionAlgorithm
    from ..ref import keys as RK
    from .. import pool, encwork
    pw = E2E_PASSES[d['pw']]
    octets = pw.encode('utf-8') if isinstance(pw, str) else pw
    where = {'way': d['e2e'], 'passphrase': repr(pw)[:60]}
    ctx.count('evaluations')
    ctx.count('end_to_end_derivations')
    with warnings.catch_warnings():
        warnings.simplefilter('ignore')
        if d['e2e'] == 'message-out':
            m = pgpy.PGPMessage.new(b'e2e', compression=CompressionAlgorithm.Uncompressed)
            blob = bytes(m.encrypt(pw, cipher=SymmetricKeyAlgorithm.AES256, hash=HashAlgorithm.SHA256))
            view = encwork.ref_open(blob, [('pass', octets)])
            if view['results'][0] is None or isinstance(view['results'][0], Exception):
                ctx.fail('s2k-of-public-operation-differs-from-reference', dict(where, what='message written by PGPy does not open with S2K(UTF-8 octets of the passphrase)'))
        elif d['e2e'] == 'message-in':
            lit = encwork.literal_packet(b'e2e', b'b', b'', 0)
            blob = encwork.ref_encrypt(lit, 9, bytes(range(32)), [('pass', octets, (3, 8, b'SALTsalt', 0x40), False)])
            try:
                dec = pgpy.PGPMessage.from_blob(blob).decrypt(pw)
                if bytes(dec._message._contents) != b'e2e':
                    raise ValueError('different plaintext')
            except Exception as e:
                ctx.fail('s2k-of-public-operation-differs-from-reference', dict(where, what='reference message does not open under PGPy', err='%s: %s' % (type(e).__name__, str(e)[:100])))
        elif d['e2e'] == 'key-out':
            k = pool.pgpy_key('ed25519_3', fresh=True, uid='e2e')
            k.protect(pw, SymmetricKeyAlgorithm.AES128, HashAlgorithm.SHA256)
            body = [p for p in wire.split(bytes(k)) if p.tag == 5][0].body
            try:
                RK.parse_sec(body, octets)
            except Exception as e:
                ctx.fail('s2k-of-public-operation-differs-from-reference', dict(where, what='key protected by PGPy does not open with S2K(UTF-8 octets of the passphrase)', err=repr(e)[:100]))
        else:
            prot = {'usage': 254, 'cipher': 7, 's2k': (3, 2, b'saltSALT', 0x30), 'iv': bytes(range(16)), 'passphrase': octets}
            k = pool.pgpy_bare('ed25519_3', protect=prot)
            try:
                with k.unlock(pw):
                    k.sign(b'x') if k.userids else None
                    if not k._key.unlocked:
                        raise ValueError('not unlocked')
            except Exception as e:
                ctx.fail('s2k-of-public-operation-differs-from-reference', dict(where, what='key protected by the reference does not unlock under PGPy', err='%s: %s' % (type(e).__name__, str(e)[:100])))
    ctx.nontrivial(d)


def _seq(ctx, d):
    import warnings
    import pgpy
    from .. import pool, encwork
    r = ctx.rng('seq', d['seq'], d['j'])
    pw = ['same passphrase', 'pässwörd', b'raw \xff bytes'][d['j']]
    octets = pw.encode('utf-8') if isinstance(pw, str) else pw
    h = [8, 2, 10][d['j']]
    spec = (d['seq'], h, b'FIXDSALT', 0x50)
    ciphers = [7, 9, 8, 3, 2, 13, 11, 12, 4, 9, 7]      # 128, 256, 192, 128, 192, 256, 128, 192, 128 ... bit keys
    r.shuffle(ciphers)
    with warnings.catch_warnings():
        warnings.simplefilter('ignore')
        for n, c in enumerate(ciphers):
            ctx.count('evaluations')
            ctx.count('end_to_end_derivations')
            ctx.count('same_specifier_sequence_steps')
            lit = encwork.literal_packet(b'seq %d' % n, b'b', b'', 0)
            direct = n % 2 == 0
            session = sym.s2k(spec[0], spec[1], spec[2], spec[3], octets, sym.keylen(c)) if direct else bytes(r.getrandbits(8) for _ in range(sym.keylen(c)))
            blob = encwork.ref_encrypt(lit, c, session, [('pass', octets, spec, direct)])
            try:
                dec = pgpy.PGPMessage.from_blob(blob).decrypt(pw)
                if bytes(dec._message._contents) != b'seq %d' % n:
                    raise ValueError('different plaintext')
            except Exception as e:
                ctx.fail('s2k-of-public-operation-differs-from-reference', {'way': 'message-in sequence', 'step': n, 'cipher': c, 'earlier_ciphers': ciphers[:n], 'specifier': [d['seq'], h],
                                                                            'session_key_in_skesk': not direct, 'err': '%s: %s' % (type(e).__name__, str(e)[:100])})
            # the same specifier on a protected key
            kc = [7, 9, 8, 3][n % 4]
            prot = {'usage': 254, 'cipher': kc, 's2k': spec, 'iv': bytes(range(sym.blocksize(kc))), 'passphrase': octets}
            k = pool.pgpy_bare('ed25519_3', protect=prot)
            try:
                with k.unlock(pw):
                    if not k._key.unlocked:
                        raise ValueError('not unlocked')
            except Exception as e:
                ctx.fail('s2k-of-public-operation-differs-from-reference', {'way': 'key-in sequence', 'step': n, 'cipher': kc, 'specifier': [d['seq'], h], 'err': '%s: %s' % (type(e).__name__, str(e)[:100])})
    ctx.nontrivial(d)


def _stored(ctx):
    """what is stored with a key or message re-parses to the same specifier and derives the same key"""
    from pgpy.packet.fields import String2Key
    r = ctx.rng('stored')
    for spec in (0, 1, 3):
        for h in HASHES:
            for c in (3, 9):
                salt = bytes(r.getrandbits(8) for _ in range(8))
                cnt = r.randrange(256)
                iv = bytes(r.getrandbits(8) for _ in range(sym.blocksize(c)))
                raw = bytes([254, c]) + sym.s2k_bytes(spec, h, salt, cnt) + iv
                buf = bytearray(raw + b'ZZ')
                s = String2Key()
                s.parse(buf)
                ctx.count('evaluations')
                ctx.count('stored_roundtrip')
                if bytes(buf) != b'ZZ' or bytes(s.__bytearray__()) != raw or len(s) != len(raw):
                    ctx.fail('s2k-stored-roundtrip', {'raw': hx(raw), 'out': hx(bytes(s.__bytearray__())), 'left': hx(buf)})
                    continue
                if spec == 3 and cnt > 0x80:
                    continue
                if bytes(s.derive_key('pw')) != sym.s2k(spec, h, salt, cnt, b'pw', sym.keylen(c)):
                    ctx.fail('s2k-parsed-derive', {'raw': hx(raw)})
    ctx.nontrivial('stored-roundtrip__')


def _gpg(ctx):
    """validation of the reference S2K against GnuPG (not of PGPy): gpg -c with each --s2k-mode/digest, decrypted by vf.ref"""
    from .. import gpgx
    if not gpgx.available():
        ctx.observe('gpg_absent')
        return
    with gpgx.Home() as g:
        for mode in (0, 1, 3):
            for dig, hid in (('SHA1', 2), ('SHA256', 8), ('MD5', 1), ('SHA512', 10)):
                blob = g.symmetric(b'hello s2k', 'pass phrase', cipher='AES256', s2k_mode=mode, s2k_digest=dig, s2k_count=65536)
                if blob is None:
                    ctx.observe('gpg_symmetric_failed')
                    continue
                pk = wire.split(blob)
                try:
                    alg, key = sym.skesk_session(pk[0].body, b'pass phrase')
                    data = pk[1]
                    pt, _ = sym.seipd_decrypt(alg, key, data.body) if data.tag == 18 else (sym.sed_decrypt(alg, key, data.body), None)
                    ctx.count('ref_vs_gpg_agree')
                except Exception as e:
                    ctx.count('ref_vs_gpg_disagree')
                    ctx.flags.setdefault('oracle_validation', {})['gpg_disagreement'] = 'mode %d %s: %r' % (mode, dig, e)
