"""C02 -- signatures conform to RFC 4880: the independent verifier and signer agree with PGPy.

Direction A: every signature PGPy's signing APIs create is (1) strictly parsed by vf.ref, (2) verified by the reference for the subject
octets taken from the *export*, (3) still verified by PGPy after export and re-import of signature, subject and key, (4) names the
signing component in issuer / issuer-fingerprint, (5) accepted by GnuPG on a sample.  Direction B: signatures made by the reference
signer (and by GnuPG) over the same kinds of subject must verify under PGPy.
"""
import warnings
from datetime import datetime, timezone, timedelta

from ..core import hx
from ..ref import wire, keys as RK, sig as RS, armor, grammar
from .. import pool, sigwork, gpgx

LEVEL = 'exploration'
RULE = ('case = (direction, signer algorithm, hash, signature kind/type, option set); one evaluation per signature checked by one oracle; '
        'non-trivial = carries at least one optional subpacket, or a non-document subject, or a hash other than SHA-256; '
        'distinct = distinct case descriptors')
ASSUMPTIONS = ['cryptography/OpenSSL public-key primitives', 'vf.ref.sig (validated on all fixture self-signatures)', 'gpg 2.2 when present (second acceptor, lenient on subpacket content)']
MIN_COUNTERS = {'quick': {'pgpy_made_ref_verified': 150, 'pgpy_made_reimport_verified': 150, 'ref_made_pgpy_verified': 150, 'uid_certifications_verified_after_transport': 150, 'zero_id_selfsigs_verified': 100, 'zero_id_data_signatures_verified': 40, 'attributes_read_back': 800},
                'thorough': {'pgpy_made_ref_verified': 800, 'ref_made_pgpy_verified': 800}}
BUDGET = {'quick': (600, 1500), 'thorough': (1500, 3600)}
TECHNIQUE = 'runtime monitoring: differential reference-model monitor (independent RFC 4880 5.2.4 verifier and signer) + GnuPG second oracle'

T1 = datetime(2020, 2, 3, 4, 5, 6, tzinfo=timezone.utc)

GENERIC_OPTS = [
    {}, {'expires': 86400 * 400}, {'expires_dt': 1}, {'notation': {'name@example.org': 'value'}}, {'notation': {'n@x.org': 'v1', 'bin@x.org': 'hex:00ff10'}},
    {'policy_uri': 'https://example.org/policy'}, {'revocable': False}, {'created': 0}, {'created': 2 ** 31 + 5}, {'created': 1580000000},
    {'include_issuer_fingerprint': False}, {'user': 1}, {'intended_recipients': 1},
    {'notation': {'näme@example.org': 'välue 日本'}}, {'policy_uri': 'https://example.org/pölicy'},
    {'expires': 1, 'notation': {'a@b': 'c'}, 'policy_uri': 'p', 'revocable': False},
    # subpackets whose total length sits on either side of every length-encoding boundary (191|192, 8383|8384, 16319|16320, 65535|65536)
    {'policy_uri': 'https://example.org/' + 'p' * (190 - 21)}, {'policy_uri': 'https://example.org/' + 'p' * (191 - 21)}, {'policy_uri': 'https://example.org/' + 'p' * 300},
    {'policy_uri': 'https://example.org/' + 'p' * (8382 - 21)}, {'policy_uri': 'https://example.org/' + 'p' * (8383 - 21)}, {'notation': {'long@example.org': 'v' * 9000}},
    {'policy_uri': 'https://example.org/' + 'p' * 12007}, {'notation': {'long@example.org': 'v' * (16318 - 26)}}, {'notation': {'long@example.org': 'v' * 16400}},
    {'notation': {'a@example.org': 'x' * 200, 'b@example.org': 'y' * 9000}, 'policy_uri': 'u' * 8400},
]
SELF_OPTS = [
    {'usage': ['Sign', 'Certify']}, {'usage': []}, {'ciphers': ['AES256', 'CAST5'], 'hashes': ['SHA512', 'SHA1'], 'compression': ['BZ2', 'Uncompressed']},
    {'ciphers': [], 'compression': []}, {'key_expiration': 86400 * 3000}, {'key_expiration_dt': 1}, {'keyserver': 'hkp://keys.example.org'},
    {'keyserver_flags': ['NoModify']}, {'primary': True}, {'primary': False}, {'keyserver': 'hkp://kéys.example.org'},
]
THIRD_OPTS = [{'trust': [1, 120]}, {'trust': [2, 60], 'regex': '<[^>]+[@.]example\\.org>$'}, {'exportable': True}, {'exportable': False}, {'trust': [1, 60], 'regex': 'ü.*'}]
REVOKE_OPTS = [{'reason': 'Superseded', 'comment': 'new key'}, {'reason': 'Compromised', 'comment': ''}, {'reason': 'Retired', 'comment': 'cömment 日本'}, {'reason': 'UserID', 'comment': 'gone'}]


def cases(tier, seed):
    import random
    r = random.Random(seed)
    cs = []
    signers = list(pool.SIGNERS) if tier == 'thorough' else ['ed25519_0', 'rsa1024_0', 'dsa1024_0', 'ecdsa_p256_0', 'rsa2048_0', 'dsa2048_0', 'ecdsa_k256_0', 'ecdsa_p521_0', 'ecdsa_p384_0']
    signers.append('rsa1024_1+alg3')      # an RSA key under the deprecated sign-only identifier (such keys exist and can only be imported)
    hashes = list(sigwork.HASHES)
    # A: product kind x signer with rotating hash; then hash x signer on documents; then option sets
    i = 0
    for kind in sigwork.KINDS:
        for s in signers:
            hs = hashes if tier == 'thorough' else [hashes[i % len(hashes)]]
            for h in hs:
                cs.append({'d': 'A', 'signer': s, 'kind': kind, 'hash': h, 'opts': {}})
            i += 1
    for s in signers:
        for h in hashes:
            cs.append({'d': 'A', 'signer': s, 'kind': 'doc-str', 'hash': h, 'opts': {}})
    optsigners = signers if tier == 'thorough' else ['ed25519_0', 'ecdsa_p256_0', 'rsa1024_0']
    for s in optsigners:
        for o in GENERIC_OPTS:
            for kind in (['doc-bytes', 'uid-other', 'none', 'bind', 'revoke-key', 'key-direct-self'] if tier == 'thorough' else [r.choice(['doc-bytes', 'none', 'bind']), r.choice(['uid-other', 'revoke-key', 'key-direct-self'])]):
                cs.append({'d': 'A', 'signer': s, 'kind': kind, 'hash': r.choice(hashes), 'opts': o})
        for o in SELF_OPTS:
            for kind in ('uid-self', 'ua-self', 'key-direct-self', 'bind'):
                if kind == 'bind' and not set(o) & {'usage'}:
                    continue
                cs.append({'d': 'A', 'signer': s, 'kind': kind, 'hash': None, 'opts': o})
        for o in THIRD_OPTS:
            for kind in ('uid-other', 'ua-other', 'key-direct-other'):
                cs.append({'d': 'A', 'signer': s, 'kind': kind, 'hash': 'SHA256', 'opts': o})
        for o in REVOKE_OPTS:
            for kind in ('revoke-key', 'revoke-subkey', 'revoke-uid'):
                cs.append({'d': 'A', 'signer': s, 'kind': kind, 'hash': 'SHA256', 'opts': o})
    # U: awkward user ids, both directions
    us = ['ed25519_0', 'rsa1024_0', 'ecdsa_p256_0'] if tier == 'quick' else signers
    for j in range(len(UIDS)):
        for n_, sname in enumerate(us):
            if tier == 'quick' and (j + n_) % 3:
                continue
            cs.append({'d': 'U', 'dir': 'A', 'u': j, 'signer': sname})
            cs.append({'d': 'U', 'dir': 'B', 'u': j, 'raw': False, 'signer': sname, 'style': ['plain', 'len5', 'old-headers'][(j + n_) % 3]})
    for j in range(len(RAW_UIDS)):
        cs.append({'d': 'U', 'dir': 'B', 'u': j, 'raw': True, 'signer': us[j % len(us)], 'style': 'plain'})
    # Z: identifiers that begin with a zero octet
    for sname, sub in (('ed25519_0', 'ed25519_1'), ('rsa1024_0', 'ecdsa_p256_1'), ('ecdsa_p256_0', 'ed25519_2'), ('dsa1024_0', 'rsa1024_1')):
        for wh in ('keyid', 'fpr', 'shortid'):
            cs.append({'d': 'Z', 'dir': 'A', 'signer': sname, 'sub': sub, 'where': wh})
            cs.append({'d': 'Z', 'dir': 'B', 'signer': sname, 'sub': sub, 'where': wh})
    # B: reference signer -> PGPy
    i = 0
    for s in signers:
        for typ in (0x00, 0x01, 0x02, 0x40, 0x10, 0x11, 0x12, 0x13, 0x16, 0x1F, 0x18, 0x20, 0x28, 0x30):
            hs = hashes if tier == 'thorough' else [hashes[i % len(hashes)], hashes[(i + 3) % len(hashes)]]
            for h in hs:
                cs.append({'d': 'B', 'signer': s, 'type': typ, 'hash': h, 'sub': r.randrange(4)})
            i += 1
    if gpgx.available():
        cs.append({'d': 'G', 'signers': ['ed25519_0', 'rsa2048_0', 'ecdsa_p256_0', 'dsa2048_0'] if tier == 'quick' else signers})
        if tier != 'quick':
            for s_ in signers:
                cs.append({'d': 'G', 'signers': [s_]})
    return cs


def _mkopts(o, k, pgpy):
    from pgpy.constants import KeyFlags, SymmetricKeyAlgorithm, HashAlgorithm, CompressionAlgorithm, KeyServerPreferences, RevocationReason
    out = {}
    for a, v in o.items():
        if a == 'expires':
            out['expires'] = timedelta(seconds=v)
        elif a == 'expires_dt':
            out['expires'] = k.created + timedelta(days=9000)
        elif a == 'created':
            out['created'] = datetime.fromtimestamp(v, timezone.utc)
        elif a == 'user':
            out['user'] = k.userids[0].name
        elif a == 'intended_recipients':
            out['intended_recipients'] = [sigwork.target_key().pubkey, sigwork.target_key().fingerprint]
        elif a == 'usage':
            out['usage'] = {getattr(KeyFlags, x) for x in v}
        elif a == 'ciphers':
            out['ciphers'] = [getattr(SymmetricKeyAlgorithm, x) for x in v]
        elif a == 'hashes':
            out['hashes'] = [getattr(HashAlgorithm, x) for x in v]
        elif a == 'compression':
            out['compression'] = [getattr(CompressionAlgorithm, x) for x in v]
        elif a == 'key_expiration':
            out['key_expiration'] = timedelta(seconds=v)
        elif a == 'key_expiration_dt':
            out['key_expiration'] = k.created + timedelta(days=12000)
        elif a == 'keyserver_flags':
            out['keyserver_flags'] = {getattr(KeyServerPreferences, x) for x in v}
        elif a == 'trust':
            out['trust'] = tuple(v)
        elif a == 'reason':
            out['reason'] = getattr(RevocationReason, v)
        elif a == 'notation':
            out['notation'] = {n: (bytearray(bytes.fromhex(x[4:])) if x.startswith('hex:') else x) for n, x in v.items()}
        else:
            out[a] = v
    return out


# user ids that are valid UTF-8 but awkward: not NFC (combining marks, compatibility characters, conjoining jamo), bidi controls, ZWJ emoji,
# odd spacing and bracket structure, very long; and octets that are not UTF-8 at all (other producers write Latin-1)
UIDS = ['Cafe\u0301 Ame\u0301lie <amelie@example.org>', '\u212bngstro\u0308m (\ufb01ne) <a@example.org>', '\u1112\u1161\u11ab\u1100\u1173\u11af <han@example.org>',
        '\u202eright-to-left\u202c <rtl@example.org>', '\U0001f468\u200d\U0001f469\u200d\U0001f467 family <f@example.org>', '  leading and trailing  ',
        'tab\tinside <t@example.org>', 'Name (comment (nested)) <n@example.org>', '<only@example.org>', 'no brackets at all', '(only a comment)',
        'x' * 300 + ' <long@example.org>', 'A\u00a0B\u2003C <nbsp@example.org>', '\u00c5\u0041\u030a same glyph twice <same@example.org>', 'e\u0301\u0301\u0301 stacked',
        '\ufeffBOM first <bom@example.org>', 'ǆ ǅ ǆ titlecase digraphs', '\u1e9b\u0323 long s with dots <s@example.org>']
RAW_UIDS = [b'Latin-1 J\xfcrgen <j@example.org>', b'\xff\xfe not text', b'half \xe2\x82 sequence <h@example.org>', b'', b'nul \x00 inside']


def _U(ctx, d, pgpy):
    """certifications over awkward user ids, both directions, self and third party, after every kind of transport"""
    from pgpy.constants import KeyFlags, SignatureType
    from .. import foreignkey
    sm = pool.mat(d['signer'])
    cert = sigwork.target_key()
    cm = pool.mat('ed25519_3')
    if d['dir'] == 'A':
        text = UIDS[d['u']]
        k = pool.pgpy_bare(d['signer'])
        uid = pgpy.PGPUID()
        from pgpy.packet.packets import UserID
        up = UserID()
        up.uid = text
        up.update_hlen()
        uid |= up
        k.add_uid(uid, usage={KeyFlags.Certify, KeyFlags.Sign})
        uid |= cert.certify(uid, SignatureType.Casual_Cert)
        for form in ('bytes', 'armor', 'public'):
            ctx.count('evaluations')
            blob = bytes(k) if form == 'bytes' else (str(k) if form == 'armor' else bytes(k.pubkey))
            k2, _ = pgpy.PGPKey.from_blob(blob)
            raw = bytes(k2)
            tk = grammar.parse_keys(wire.split(raw))[0]
            ubody, sigs = tk['uids'][0][0].body, tk['uids'][0][1]
            if ubody != text.encode('utf-8'):
                ctx.fail('user-id-octets-changed-in-transport', {'uid': text, 'form': form, 'got': hx(ubody)[:120], 'expected': hx(text.encode('utf-8'))[:120]})
            prim = RK.parse_pub(tk['primary'].body)['pubbody']
            for s_ in sigs:
                ps = RS.parse_sig(s_.body)
                who = sm if RS.issuer(ps) == RK.keyid_of(sm) else cm
                ok, why = RS.verify(ps, who, RS.hash_input(ps, primary=prim, uid=text.encode('utf-8')))
                if not ok:
                    ctx.fail('reference-rejects-pgpy-signature', {'uid': text, 'form': form, 'why': why, 'self': who is sm})
                else:
                    ctx.count('pgpy_made_ref_verified')
            for verifier, label in ((k2 if k2.is_public else k2.pubkey, 'self'), (cert.pubkey, 'third-party')):
                res, det = sigwork.pgpy_verify(verifier, k2.userids[0])
                n = len(list(det.good_signatures)) if res == 'true' else 0
                if res != 'true' or n < 1:
                    ctx.fail('pgpy-rejects-own-signature-after-reimport', {'uid': text, 'form': form, 'which': label, 'result': res})
                else:
                    ctx.count('uid_certifications_verified_after_transport')
    else:
        rawuid = RAW_UIDS[d['u']] if d['raw'] else UIDS[d['u']].encode('utf-8')
        blob, info = foreignkey.build(d['signer'], None, d['style'], uid=rawuid)
        # a third-party certification by the reference over the same octets
        prim = RK.pub_body(pool.mat(d['signer'], 1500000000))
        h, u = RS.std_areas(cm, 1600000000)
        tb = RS.sign(cm, 0x12, 8, h, u, primary=prim, uid=rawuid)
        blob += wire.new_hdr(2, len(tb)) + tb
        ctx.count('evaluations')
        try:
            k, _ = pgpy.PGPKey.from_blob(blob)
        except Exception as e:
            ctx.fail('pgpy-cannot-load-reference-signature', {'uid': hx(rawuid)[:80], 'err': repr(e)[:160], 'what': 'key with this user id'})
            return
        for form in ('direct', 'reexported', 'public-reexported'):
            kk = k if form == 'direct' else pgpy.PGPKey.from_blob(bytes(k) if form == 'reexported' else bytes(k.pubkey))[0]
            if not kk.userids:
                ctx.fail('pgpy-rejects-reference-signature', {'uid': hx(rawuid)[:80], 'form': form, 'result': 'identity missing after load'})
                continue
            for verifier, label in ((kk if kk.is_public else kk.pubkey, 'self'), (cert.pubkey, 'third-party')):
                res, det = sigwork.pgpy_verify(verifier, kk.userids[0])
                n = len(list(det.good_signatures)) if res == 'true' else 0
                if res != 'true' or n < 1:
                    ctx.fail('pgpy-rejects-reference-signature', {'uid': hx(rawuid)[:80], 'form': form, 'which': label, 'result': res, 'style': d['style']})
                else:
                    ctx.count('ref_made_pgpy_verified')
                    ctx.count('uid_certifications_verified_after_transport')
    ctx.nontrivial(d)


def _Z(ctx, d, pgpy):
    """signers whose key id / fingerprint / short id begins with a zero octet (primary and signing subkey): issuer fields must survive every
    transport and the signatures must keep verifying, in both directions"""
    from pgpy.constants import KeyFlags
    from .. import foreignkey
    from ..oracle_selftest import verify_key_blob
    tp = pool.created_with_zero(d['signer'], d['where'])
    ts = pool.created_with_zero(d['sub'], d['where'])
    pm, sbm = pool.mat(d['signer'], tp), pool.mat(d['sub'], ts)
    where = {'signer': d['signer'], 'sub': d['sub'], 'zero_in': d['where'], 'primary_fpr': RK.fpr_of(pm).hex(), 'sub_fpr': RK.fpr_of(sbm).hex()}
    if d['dir'] == 'A':
        k = pool.pgpy_bare(d['signer'], created=tp)
        k.add_uid(pgpy.PGPUID.new('Zero Id', email='z@example.org'), usage={KeyFlags.Certify, KeyFlags.Sign})
        sk = pool.pgpy_bare(d['sub'], created=ts)
        k.add_subkey(sk, usage={KeyFlags.Sign})
        blob = bytes(k)
    else:
        blob, info = foreignkey.build(d['signer'], d['sub'], 'plain', created=None)
        blob, info = foreignkey.build(d['signer'], d['sub'], ['plain', 'len5', 'issuer-hashed'][tp % 3], uid=b'Zero Id <z@example.org>', created=tp)
        # foreignkey gives the subkey created+5: look for a subkey time of its own is not needed for direction B (the primary id is the zero one)
    ctx.count('evaluations')
    st = {}
    verify_key_blob(blob, st, canonical=False, ignore_left16=False)
    if st.get('rejected') or not st.get('verified'):
        ctx.fail('reference-rejects-pgpy-signature' if d['dir'] == 'A' else 'harness', dict(where, what='self-signatures of the key', rejected=st.get('rejected')))
        return
    nself = st['verified']
    for form in ('binary', 'armor', 'public', 'twice'):
        kk = pgpy.PGPKey.from_blob(blob)[0]
        if form == 'armor':
            kk = pgpy.PGPKey.from_blob(str(kk))[0]
        elif form == 'public':
            kk = pgpy.PGPKey.from_blob(bytes(kk.pubkey))[0]
        elif form == 'twice':
            kk = pgpy.PGPKey.from_blob(bytes(pgpy.PGPKey.from_blob(bytes(kk))[0]))[0]
        pubk = kk if kk.is_public else kk.pubkey
        res, det = sigwork.pgpy_verify(pubk, pubk)
        good = len(list(det.good_signatures)) if res == 'true' else 0
        if res != 'true' or good < nself:
            ctx.fail('pgpy-rejects-own-signature-after-reimport' if d['dir'] == 'A' else 'pgpy-rejects-reference-signature',
                     dict(where, form=form, result=res, good=good, expected=nself, what='self-signatures and bindings of a key whose identifier begins with 00'))
        else:
            ctx.count('zero_id_selfsigs_verified', good)
        if kk.is_public:
            continue
        # data signatures by the primary and by the signing subkey, parsed back before verification
        for signer_obj, label, m in ((kk, 'primary', pm),) + (((list(kk.subkeys.values())[0], 'subkey', sbm),) if d['dir'] == 'A' else ()):
            sig = signer_obj.sign(b'zero id document')
            raw = bytes(sig)
            ok, why, ps = sigwork.ref_check(raw, m, {'doc': b'zero id document'})
            if not ok:
                ctx.fail('reference-rejects-pgpy-signature', dict(where, form=form, by=label, why=why))
            elif RS.issuer(ps) != RK.keyid_of(m) or (RS.issuer_fpr(ps) is not None and RS.issuer_fpr(ps) != RK.fpr_of(m)):
                ctx.fail('issuer-field-differs-from-signing-key', dict(where, form=form, by=label, issuer=hx(RS.issuer(ps) or b'')))
            s2 = pgpy.PGPSignature.from_blob(raw)
            res, det = sigwork.pgpy_verify(pubk, b'zero id document', s2)
            if res != 'true':
                ctx.fail('pgpy-rejects-own-signature-after-reimport', dict(where, form=form, by=label, result=res, signer_field=s2.signer))
            else:
                ctx.count('pgpy_made_reimport_verified')
                ctx.count('zero_id_data_signatures_verified')
            if bytes(s2) != raw:
                ctx.fail('signature-changes-in-transport', dict(where, form=form, by=label))
    ctx.nontrivial(d)


def run_case(ctx, d):
    import pgpy
    with warnings.catch_warnings():
        warnings.simplefilter('ignore')
        if d['d'] == 'Z':
            _Z(ctx, d, pgpy)
        elif d['d'] == 'U':
            _U(ctx, d, pgpy)
        elif d['d'] == 'A':
            _A(ctx, d, pgpy)
        elif d['d'] == 'B':
            _B(ctx, d, pgpy)
        else:
            _G(ctx, d, pgpy)


def _A(ctx, d, pgpy):
    k = sigwork.signer_key(d['signer'])
    opts = _mkopts(d['opts'], k, pgpy)
    try:
        t = sigwork.pgpy_triple(d['signer'], d['kind'], d['hash'], opts)
    except Exception as e:
        if d['hash'] == 'RIPEMD160':
            ctx.outcome('unsupported_here')
            return
        raise
    sigbytes = bytes(t.sig)
    ctx.count('evaluations')
    # (0) sanity: it verifies in memory
    r0, _ = sigwork.pgpy_verify(t.key, t.subject, t.sig if t.carrier == 'detached' else None)
    if r0 != 'true':
        ctx.fail('fresh-signature-does-not-verify', {'case': d, 'result': r0})
    # (1)+(2) strict reference parse and verification over exported subject octets
    ok, why, ps = sigwork.ref_check(sigbytes, t.signer, t.refsubj)
    if not ok:
        ctx.fail('reference-rejects-pgpy-signature', {'case': d, 'why': why, 'sig': hx(sigbytes)})
    else:
        ctx.count('pgpy_made_ref_verified')
    if ps is not None:
        if RS.created(ps) is None:
            ctx.fail('no-hashed-creation-time', {'case': d})
        fpr = RK.fpr_of(t.signer)
        if RS.issuer(ps) != fpr[-8:]:
            ctx.fail('issuer-not-signer-keyid', {'case': d, 'issuer': hx(RS.issuer(ps) or b''), 'expected': hx(fpr[-8:])})
        if d['opts'].get('include_issuer_fingerprint', True):
            if RS.issuer_fpr(ps) != fpr:
                ctx.fail('issuer-fingerprint-differs', {'case': d})
        elif RS.issuer_fpr(ps) is not None:
            ctx.fail('issuer-fingerprint-not-suppressed', {'case': d})
        if 'created' in d['opts'] and RS.created(ps) != d['opts']['created']:
            ctx.fail('creation-time-option-not-honoured', {'case': d, 'written': RS.created(ps)})
        # embedded cross-signature of a binding is itself a signature PGPy created
        for eb in RS.sp_get(ps, 32):
            es = RS.parse_sig(eb)
            subm = pool.mat('ed25519_1' if d['signer'] != 'ed25519_1' else 'ed25519_2')
            eok, ewhy = RS.verify(es, subm, RS.hash_input(es, **t.refsubj))
            ctx.count('embedded_checked')
            if not eok or es['type'] != 0x19:
                ctx.fail('reference-rejects-embedded-cross-signature', {'case': d, 'why': ewhy})
    # (3) export -> import -> verify under PGPy
    try:
        pub2 = pgpy.PGPKey.from_blob(bytes(t.key))[0]
        if t.carrier == 'detached':
            sig2 = pgpy.PGPSignature.from_blob(sigbytes)
            if ps is not None:
                attributes_read_back(ctx, sig2, ps, d)
            subj2 = _reimport_subject(t, pub2, pgpy)
            r, det = sigwork.pgpy_verify(pub2, subj2, sig2)
            keep = subj2
        else:
            m2 = pgpy.PGPMessage.from_blob(bytes(t.subject) if t.carrier == 'message' else str(t.subject))
            r, det = sigwork.pgpy_verify(pub2, m2)
        if r != 'true':
            ctx.fail('pgpy-rejects-own-signature-after-reimport', {'case': d, 'result': r, 'detail': repr(det)[:200], 'sig': hx(sigbytes)})
        else:
            ctx.count('pgpy_made_reimport_verified')
        # ... and so does a copy of the re-imported signature / message (public twins and copied keys hold such copies)
        import copy as _copy
        if t.carrier == 'detached':
            sc = _copy.copy(sig2)
            rc_, _ = sigwork.pgpy_verify(pub2, subj2, sc)
            if bytes(sc) != sigbytes or rc_ != 'true':
                ctx.fail('copy-of-reimported-signature-differs-or-fails', {'case': d, 'result': rc_, 'same_octets': bytes(sc) == sigbytes})
            ok3, why3, _ = sigwork.ref_check(bytes(sc), t.signer, t.refsubj)
            if not ok3:
                ctx.fail('reference-rejects-copy-of-reimported-signature', {'case': d, 'why': why3})
        else:
            mc = _copy.copy(m2)
            rc_, _ = sigwork.pgpy_verify(pub2, mc)
            if rc_ != 'true':
                ctx.fail('copy-of-reimported-message-fails', {'case': d, 'result': rc_})
        ctx.count('copies_checked')
        # armored transport of the signature
        if t.carrier == 'detached':
            sig3 = pgpy.PGPSignature.from_blob(str(t.sig))
            if bytes(sig3) != sigbytes:
                ctx.fail('signature-changes-through-armor', {'case': d})
    except Exception as e:
        ctx.fail('reimport-raised', {'case': d, 'err': repr(e)[:300]})
    if d['opts'] or d['kind'] not in ('doc-bytes', 'doc-str') or d['hash'] not in (None, 'SHA256'):
        ctx.nontrivial(d)
    if len(ctx.samples) < 4:
        ctx.sample({'case': d, 'signature_packet': hx(sigbytes)[:160]})


KNOWN_IDS = {11: {1, 2, 3, 4, 7, 8, 9, 10, 11, 12, 13}, 21: {1, 2, 3, 8, 9, 10, 11}, 22: {0, 1, 2, 3}}


def attributes_read_back(ctx, sig, ps, d):
    """what the attributes of a parsed signature say equals what its subpackets hold, decoded independently (first hashed instance)"""
    def first(t):
        v = RS.sp_get(ps, t, hashed_only=True)
        return bytes(v[0]) if v else None
    exp, got = {}, {}
    for t, name in ((11, 'cipherprefs'), (21, 'hashprefs'), (22, 'compprefs')):
        b = first(t)
        if b is not None:
            exp[name] = [x for x in b if x in KNOWN_IDS[t]]
            got[name] = [int(x) for x in getattr(sig, name)]
    b = first(27)
    if b is not None and len(b) >= 1:
        exp['key_flags'] = sorted(1 << i for i in range(8) if b[0] >> i & 1 and (1 << i) in (1, 2, 4, 8, 0x10, 0x20, 0x80))
        got['key_flags'] = sorted(int(x) for x in sig.key_flags)
    b = first(30)
    if b is not None and len(b) >= 1:
        exp['features'] = sorted(1 << i for i in range(8) if b[0] >> i & 1 and (1 << i) in (1,))
        got['features'] = sorted(int(x) for x in sig.features if int(x) in (1,))
    for t, name in ((24, 'keyserver'), (26, 'policy_uri')):
        b = first(t)
        if b is not None:
            try:
                exp[name] = b.decode('utf-8')
                got[name] = getattr(sig, name)
            except UnicodeDecodeError:
                pass
    for t, name in ((7, 'revocable'), (4, 'exportable')):
        b = first(t)
        if b is not None and len(b) == 1:
            exp[name] = bool(b[0])
            got[name] = getattr(sig, name)
    b = first(9)
    if b is not None and len(b) == 4:
        exp['key_expiration'] = int.from_bytes(b, 'big')
        got['key_expiration'] = int(sig.key_expiration.total_seconds()) if sig.key_expiration is not None else None
    b = first(3)
    if b is not None and len(b) == 4:
        exp['expires_after'] = int.from_bytes(b, 'big')
        got['expires_after'] = int((sig.expires_at - sig.created).total_seconds()) if sig.expires_at is not None else None
    c = RS.created(ps)
    if c is not None:
        exp['created'] = c
        got['created'] = int(sig.created.timestamp())
    ctx.count('attributes_read_back', len(exp))
    bad = sorted(k_ for k_ in exp if exp[k_] != got[k_])
    if bad:
        ctx.fail('attribute-of-parsed-signature-differs-from-its-subpackets', {'case': d, 'attributes': bad, 'got': {k_: repr(got[k_])[:60] for k_ in bad}, 'in_the_octets': {k_: repr(exp[k_])[:60] for k_ in bad}})


def _reimport_subject(t, pub2, pgpy):
    """the subject as a receiver would have it: taken from re-imported keys"""
    s = t.subject
    if isinstance(s, (bytes, str)) or s is None:
        return s
    if isinstance(s, pgpy.PGPUID):
        parent = s._parent
        if parent is t.key or (parent is not None and parent.fingerprint == pub2.fingerprint):
            p2 = pub2
        else:
            p2 = pgpy.PGPKey.from_blob(bytes(parent))[0]
            t.keepalive.append(p2)
        return (p2.userids if s.is_uid else p2.userattributes)[0]
    if isinstance(s, pgpy.PGPKey):
        if s.is_primary:
            if s.fingerprint == pub2.fingerprint:
                return pub2
            p2 = pgpy.PGPKey.from_blob(bytes(s))[0]
            t.keepalive.append(p2)
            return p2
        return pub2.subkeys[s.fingerprint.keyid]
    raise TypeError(type(s))


def ref_sign_case(d, ctx=None):
    """reference-made signature for direction B -> (sig packet bytes, verifying PGPy pub, PGPy subject, keepalive)"""
    import pgpy
    signer = sigwork.signer_key(d['signer'])
    sm = pool.mat(d['signer'])
    pub = pgpy.PGPKey.from_blob(bytes(signer.pubkey))[0]
    prim, uids, subs = sigwork.export_view(signer)
    tk = sigwork.target_key()
    tpub = pgpy.PGPKey.from_blob(bytes(tk.pubkey))[0]
    tprim, tuids, tsubs = sigwork.export_view(tk)
    typ = d['type']
    extra = b''
    sub = d.get('sub', 0)
    if sub == 1:
        extra = wire.subpacket(20, b'\x80\x00\x00\x00' + (5).to_bytes(2, 'big') + (3).to_bytes(2, 'big') + b'n@x.y' + b'val')
    elif sub == 2:
        extra = wire.subpacket(26, b'https://example.org/p') + wire.subpacket(3, (86400 * 365 * 30).to_bytes(4, 'big'))
    elif sub == 3:
        extra = wire.subpacket(27, b'\x03') + wire.subpacket(11, b'\x09\x08\x07') + wire.subpacket(30, b'\x01')
    hashed, unhashed = RS.std_areas(sm, 1600000000 + typ, extra)
    halg = sigwork.HASHES[d['hash']]
    keep = [pub, tpub]
    if typ == 0x00:
        doc = b'reference binary \x00\xff document\n'
        subj, rs = doc, {'doc': doc}
    elif typ == 0x01:
        doc = 'reference text\r\ndocument\nwith mixed endings é\n'
        subj, rs = doc, {'doc': doc.encode('utf-8')}
    elif typ in (0x02, 0x40):
        subj, rs = None, {}
    elif typ in (0x10, 0x11, 0x12, 0x13, 0x30, 0x16):
        other = typ in (0x10, 0x11)
        useua = typ in (0x12,)
        P, U, KO = (tprim, tuids, tpub) if other else (prim, uids, pub)
        want = 17 if useua else 13
        idx = [i for i, (tg, _) in enumerate(U) if tg == want][0]
        subj = (KO.userattributes if useua else KO.userids)[0]
        rs = {'primary': P, 'ua' if useua else 'uid': U[idx][1]}
        if typ == 0x16:
            hashed += wire.subpacket(37, b'')
    elif typ in (0x1F, 0x20):
        subj, rs = pub, {'primary': prim}
    elif typ in (0x18, 0x28):
        subj, rs = list(pub.subkeys.values())[0], {'primary': prim, 'subkey': subs[0]}
    else:
        raise ValueError(typ)
    body = RS.sign(sm, typ, halg, hashed, unhashed, **rs)
    raw = wire.new_hdr(2, len(body)) + body
    return raw, pub, subj, rs, sm, keep


def _B(ctx, d, pgpy):
    raw, pub, subj, rs, sm, keep = ref_sign_case(d)
    ctx.count('evaluations')
    ok, why, _ = sigwork.ref_check(raw, sm, rs)
    if not ok:
        ctx.count('case_crashes')   # the reference must accept its own signature: harness defect, never a violation
        return
    try:
        sig = pgpy.PGPSignature.from_blob(raw)
    except Exception as e:
        ctx.fail('pgpy-cannot-load-reference-signature', {'case': d, 'err': repr(e)[:200], 'sig': hx(raw)})
        return
    r, det = sigwork.pgpy_verify(pub, subj, sig)
    if r != 'true':
        ctx.fail('pgpy-rejects-reference-signature', {'case': d, 'result': r, 'detail': repr(det)[:200], 'sig': hx(raw)})
    else:
        ctx.count('ref_made_pgpy_verified')
    if bytes(sig) != raw:
        ctx.observe('reference_signature_reserialises_differently')
    ctx.nontrivial(d)


def _G(ctx, d, pgpy):
    """GnuPG as second acceptor of PGPy signatures and as second producer"""
    with gpgx.Home() as g:
        for name in d['signers']:
            k = sigwork.signer_key(name)
            ok, err = g.import_key(bytes(k))
            if not ok:
                ctx.observe('gpg_import_failed')
                continue
            fpr = str(k.fingerprint)
            doc = b'gpg cross-check document\n'
            for h in ('SHA256', 'SHA512', 'SHA384'):   # gpg refuses digests shorter than the curve/q by policy; not an RFC 4880 matter
                s = k.sign(doc, hash=getattr(pgpy.constants.HashAlgorithm, h))
                good, e = g.verify_detached(bytes(s), doc)
                ctx.count('evaluations')
                ctx.count('gpg_checked_pgpy_signature')
                if not good:
                    ctx.fail('gpg-rejects-pgpy-signature', {'signer': name, 'hash': h, 'gpg': e[-300:]})
                gs = g.sign(doc, fpr, '--detach-sign', h)
                if gs is None:
                    ctx.observe('gpg_sign_failed')
                    continue
                sig = pgpy.PGPSignature.from_blob(gs)
                r, det = sigwork.pgpy_verify(k.pubkey, doc, sig)
                ctx.count('gpg_made_pgpy_verified' if r == 'true' else 'gpg_made_pgpy_rejected')
                if r != 'true':
                    ctx.fail('pgpy-rejects-gpg-signature', {'signer': name, 'hash': h, 'result': r, 'sig': hx(gs)})
                # the reference must agree with gpg about gpg's own signature (else the harness is at fault)
                ok2, why, _ = sigwork.ref_check(gs, pool.mat(name), {'doc': doc}, strict=False)
                if not ok2:
                    ctx.flags.setdefault('oracle_validation', {})['ref_vs_gpg'] = why
                    ctx.count('case_crashes')
            # certifications / bindings of the whole key as gpg sees them
            out = g.check_sigs(fpr)
            nbad = sum(1 for l in out.splitlines() if l.startswith('sig:') and l.split(':')[1] in ('-', '%'))
            ngood = sum(1 for l in out.splitlines() if l.startswith('sig:') and l.split(':')[1] == '!')
            ctx.count('gpg_key_signatures_good', ngood)
            if nbad:
                ctx.fail('gpg-reports-bad-key-signature', {'signer': name, 'out': out[-600:]})
    ctx.nontrivial(d)
