"""C08 -- packet codec: own output re-parses byte-exactly; foreign input normalises once.

(own) every packet PGPy emits in any export reachable in the workloads (keys of every algorithm in public / private / protected form,
signatures with every option, signed / compressed / encrypted messages), also after in-place mutation + update_hlen, is fed back to
Packet() followed by trailing data: it must consume exactly its own length and re-serialise to the identical octets.
(foreign) well-formed packets from the independent encoder -- all tags, old/new/partial/indeterminate headers, non-minimal lengths,
unknown versions and algorithms, every key algorithm x S2K usage, subpacket areas, literal metadata, user ids incl. invalid UTF-8,
nested compressed packets, trust packets of length 1..4 -- that PGPy accepts: the re-serialisation must be one well-framed packet,
be accepted again, carry the same field values (per the reference's decoding of both), and be a fixed point of a second pass.
"""
import warnings

from ..core import hx, time_limit, Stalled
from ..ref import wire, keys as RK, sig as RS, sym, grammar, pk as RPK
from .. import pool, sigwork, encwork

LEVEL = 'exploration'
RULE = ('case = (own: object kind, key/options) | (foreign: packet tag, header form, generator seed); one evaluation per packet round-tripped; '
        'non-trivial = packet with a body of more than 2 octets and (for foreign) a header form or field value not produced by PGPy itself; '
        'distinct = distinct packet octet strings (digest)')
ASSUMPTIONS = ['well-formedness of foreign packets is by construction of the reference encoder (RFC 4880 ss. 4, 5)', 'field equality is judged by the reference decoding of both octet strings']
MIN_COUNTERS = {'quick': {'own_packets': 1000, 'foreign_packets': 2500, 'foreign_accepted': 2000, 'tags_covered': 20, 'mutated_then_serialised': 30},
                'thorough': {'own_packets': 10000, 'foreign_packets': 40000}}
BUDGET = {'quick': (600, 1500), 'thorough': (1800, 3600)}
TECHNIQUE = 'runtime monitoring: round-trip law monitor on every emitted packet + differential reference decoding of foreign packets before/after PGPy re-serialisation'

TRAIL = [b'', b'\xb4\x03abc', b'\x00\x00\x00', b'\xff' * 7]
FTAGS = [1, 2, 3, 4, 5, 6, 7, 8, 9, 10, 11, 12, 13, 14, 17, 18, 19, 15, 16, 20, 40, 60, 63]


def cases(tier, seed):
    cs = []
    for name in pool.SIGNERS + ['elg1024_0']:
        cs.append({'t': 'own_key', 'key': name})
    for i in range(20 if tier == 'quick' else 400):
        cs.append({'t': 'own_msg', 'i': i, 'seed': seed})
    for i in range(16 if tier == 'quick' else 300):
        cs.append({'t': 'own_sig', 'i': i, 'seed': seed})
    cs.append({'t': 'mutate', 'seed': seed})
    nb = 6 if tier == 'quick' else 400
    for tag in FTAGS:
        for b in range(nb):
            cs.append({'t': 'foreign', 'tag': tag, 'batch': b, 'seed': seed, 'n': 30})
    return cs


# ---------------------------------------------------------------- reference field decoding
def fields(tag, body, depth=0):
    body = bytes(body)
    try:
        if tag == 11:
            f = grammar.literal_fields(body)
            try:
                fn = f['filename'].decode('utf-8')
            except UnicodeDecodeError:
                fn = f['filename'].decode('latin-1')
            return ('literal', f['format'], fn, f['mtime'], f['data'])
        if tag == 2 and body[:1] == b'\x04':
            s = RS.parse_sig(body, strict=False)
            return ('sig4', s['type'], s['pubalg'], s['halg'], s['hashed'], tuple((t, c, b) for t, c, b, r in s['usp']), s['left16'], tuple(s['mpis']) if s['mpis'] is not None else s['sigraw'])
        if tag in (5, 6, 7, 14) and body[:1] == b'\x04':
            k = RK.parse_pub(body)
            return ('key4', tag, RK.pub_body(k), body[k['publen']:])
        if tag == 8 and depth < 3:
            inner = sym.decompress(body[0], body[1:])
            return ('compressed', body[0], tuple(fields(p.tag, p.body, depth + 1) for p in wire.split(inner)))
        if tag == 1 and body[:1] == b'\x03':
            f = RPK.pkesk_fields(body)
            return ('pkesk', tuple(sorted((a, b) for a, b in f.items())))
    except Exception:
        pass
    return ('raw', tag, body)


def _copy_law(ctx, p, out, where):
    """a copy of a packet object is a packet with the same field values: it serialises to the same octets (and so does a copy of the copy)"""
    import copy
    try:
        c1 = copy.copy(p)
        c2 = copy.copy(c1)
        o1, o2 = bytes(c1.__bytearray__()), bytes(c2.__bytearray__())
    except Exception as e:
        ctx.fail('copy-of-packet-cannot-be-serialised', {'where': where, 'err': repr(e)[:200], 'packet': hx(out)[:200]})
        return
    ctx.count('packet_copies_compared')
    if o1 != out or o2 != out:
        ctx.fail('copy-of-packet-serialises-differently', {'where': where, 'packet': hx(out)[:300], 'copy': hx(o1)[:300], 'lens': [len(out), len(o1), len(o2)]})


def roundtrip_own(ctx, pgpy, raw, where):
    """law for PGPy's own output"""
    from pgpy.packet import Packet
    for t in (TRAIL[1], TRAIL[0]):
        ctx.count('own_packets')
        ctx.count('evaluations')
        buf = bytearray(raw + t)
        try:
            with time_limit(20):
                p = Packet(buf)
                out = bytes(p.__bytearray__())
        except Stalled:
            ctx.fail('own-packet-parse-stalled', {'where': where, 'packet': hx(raw)[:200]})
            return
        except Exception as e:
            ctx.fail('own-packet-rejected', {'where': where, 'err': repr(e)[:200], 'packet': hx(raw)[:300]})
            return
        if bytes(buf) != t:
            ctx.fail('own-packet-consumption', {'where': where, 'left': hx(buf)[:60], 'expected_left': hx(t), 'packet': hx(raw)[:300]})
        if out != raw:
            ctx.fail('own-packet-reserialises-differently', {'where': where, 'packet': hx(raw)[:300], 'out': hx(out)[:300], 'lens': [len(raw), len(out)]})
        _copy_law(ctx, p, out, where)
    if len(raw) > 4:
        ctx.nontrivial(hx(__import__('hashlib').sha1(raw).digest()[:8]))


def own_blob(ctx, pgpy, blob, where):
    try:
        pkts = wire.split(blob)
    except wire.Malformed as e:
        ctx.fail('own-export-not-well-framed', {'where': where, 'err': str(e), 'blob': hx(blob)[:200]})
        return
    for p in pkts:
        ctx.flags.setdefault('tags', {})[str(p.tag)] = 1
        roundtrip_own(ctx, pgpy, p.raw, dict(where, tag=p.tag))
        if p.tag == 8:
            try:
                own_blob(ctx, pgpy, sym.decompress(p.body[0], p.body[1:]), dict(where, inside='compressed'))
            except wire.Malformed as e:
                ctx.fail('own-compressed-packet-unreadable', {'where': where, 'err': str(e)})


def run_case(ctx, d):
    import pgpy
    with warnings.catch_warnings():
        warnings.simplefilter('ignore')
        getattr(__import__(__name__, fromlist=['x']), '_' + d['t'])(ctx, d, pgpy)


def _own_key(ctx, d, pgpy):
    from pgpy.constants import SymmetricKeyAlgorithm, HashAlgorithm
    if d['key'] == 'elg1024_0':
        k = pgpy.PGPKey.from_blob(pool.secret_packet('elg1024_0'))[0]
        own_blob(ctx, pgpy, bytes(k), {'own': 'elgamal secret'})
        return
    k = sigwork.signer_key(d['key'])
    k2 = pgpy.PGPKey.from_blob(bytes(k))[0]
    other = sigwork.target_key()
    u = k2.userids[0]
    u |= other.certify(u, notation={'n@example.org': 'välue'}, policy_uri='https://p.example/ü')
    k2 |= k2.revoke(k2, reason=pgpy.constants.RevocationReason.Retired, comment='done')
    k2 |= k2.revoker(other.pubkey)
    own_blob(ctx, pgpy, bytes(k2), {'own': 'private key', 'key': d['key']})
    own_blob(ctx, pgpy, bytes(k2.pubkey), {'own': 'public key', 'key': d['key']})
    k2.protect('pw', SymmetricKeyAlgorithm.Camellia128, HashAlgorithm.SHA1)
    own_blob(ctx, pgpy, bytes(k2), {'own': 'protected key', 'key': d['key']})
    ctx.sample({'own_key': d['key'], 'packets': [p.tag for p in wire.split(bytes(k2))]}) if len(ctx.samples) < 2 else None


def _own_msg(ctx, d, pgpy):
    from pgpy.constants import SymmetricKeyAlgorithm
    r = ctx.rng('ownmsg', d['i'], d['seed'])
    md = {'body': r.choice(['empty', 'one', 'text', 'ascii', 'binary', 'zeros', '64k']), 'comp': r.choice(encwork.COMPRESSIONS)}
    if r.random() < 0.4:
        md['filename'] = r.choice(['file.txt', 'ünï.txt', 'x' * 120])
    msg, _ = encwork.make_message(md, r)
    for s in r.sample(['ed25519_0', 'rsa1024_0', 'dsa1024_0', 'ecdsa_p256_0'], r.randint(0, 3)):
        msg |= sigwork.signer_key(s).sign(msg)
    own_blob(ctx, pgpy, bytes(msg), {'own': 'message', 'desc': md})
    k, m = encwork.recipient(r.choice(encwork.RECIPIENTS))
    enc = k.pubkey.encrypt(msg, cipher=getattr(SymmetricKeyAlgorithm, r.choice(list(encwork.CIPHERS))))
    if r.random() < 0.5:
        enc = enc.encrypt('pw', sessionkey=None)   # independent session key would break the message; PGPy requires the same one
    own_blob(ctx, pgpy, bytes(k.pubkey.encrypt(msg)), {'own': 'encrypted message'})
    own_blob(ctx, pgpy, bytes(msg.encrypt('pw2', cipher=SymmetricKeyAlgorithm.CAST5)), {'own': 'passphrase message'})
    if d['i'] < 4:
        # nested packets that compress extremely well (ratio far beyond DEFLATE's maximum): each algorithm once
        big, _ = encwork.make_message({'body': 'zeros1m', 'comp': encwork.COMPRESSIONS[d['i'] % 4]}, r)
        own_blob(ctx, pgpy, bytes(big), {'own': 'message of a million zero octets', 'comp': encwork.COMPRESSIONS[d['i'] % 4]})
        back = pgpy.PGPMessage.from_blob(bytes(big))
        ctx.count('highly_compressible_messages')
        if bytes(back._message._contents) != b'\x00' * 1000000 or bytes(back) != bytes(big):
            ctx.fail('own-packet-reserialises-differently', {'where': {'own': 'message of a million zero octets', 'comp': encwork.COMPRESSIONS[d['i'] % 4]},
                                                            'contents_len': len(back._message._contents), 'lens': [len(bytes(big)), len(bytes(back))]})
    ct = pgpy.PGPMessage.new('clear\n- text', cleartext=True)
    ct |= sigwork.signer_key('ed25519_0').sign(ct)
    own_blob(ctx, pgpy, bytes(ct), {'own': 'cleartext signatures'})


def _own_sig(ctx, d, pgpy):
    from . import C02
    r = ctx.rng('ownsig', d['i'], d['seed'])
    for _ in range(12):
        signer = r.choice(['ed25519_0', 'ecdsa_p256_0', 'rsa1024_0', 'dsa1024_0'])
        kind = r.choice(sigwork.KINDS)
        optset = r.choice(C02.GENERIC_OPTS + (C02.SELF_OPTS if kind in ('uid-self', 'ua-self', 'key-direct-self') else []) +
                          (C02.THIRD_OPTS if kind in ('uid-other', 'ua-other', 'key-direct-other') else []) + (C02.REVOKE_OPTS if kind.startswith('revoke') else []))
        k = sigwork.signer_key(signer)
        try:
            t = sigwork.pgpy_triple(signer, kind, r.choice(list(sigwork.HASHES)), C02._mkopts(optset, k, pgpy))
        except TypeError:
            continue
        own_blob(ctx, pgpy, bytes(t.sig), {'own': 'signature', 'kind': kind, 'opts': optset})


def _mutate(ctx, d, pgpy):
    """parse -> change through public attributes -> update_hlen -> the own-output law must hold for what is written"""
    from pgpy.packet import Packet
    r = ctx.rng('mutate', d['seed'])
    # user id edited (incl. one that arrived as Latin-1)
    for rawuid in (b'plain uid', 'ünï uid'.encode('utf-8'), b'latin1 \xfc\xe9 uid', b'x' * 190):
        for hdr in ('new', 'old'):
            raw = (wire.new_hdr(13, len(rawuid)) if hdr == 'new' else wire.old_hdr(13, len(rawuid))) + rawuid
            p = Packet(bytearray(raw))
            for newtext in ('edited', 'édité ' * 40, 'z' * 300, 'b' * 255, 'b' * 256, 'b' * 257, 'c' * 65535, 'c' * 65536, 'c' * 65537, 'd' * 191, 'd' * 192, 'd' * 8383, 'd' * 8384):
                p.uid = newtext
                p.update_hlen()
                ctx.count('mutated_then_serialised')
                roundtrip_own(ctx, pgpy, bytes(p.__bytearray__()), {'mutated': 'uid', 'hdr': hdr})
    # literal: filename / content changed
    raw = encwork.literal_packet(b'data', b'b', b'n.txt', 5, 'old')
    p = Packet(bytearray(raw))
    for fn, content in (('other.bin', b'x' * 300), ('ü.txt', b''), ('', b'y' * 70000)):
        p.filename = fn
        p._contents = bytearray(content)
        p.update_hlen()
        ctx.count('mutated_then_serialised')
        roundtrip_own(ctx, pgpy, bytes(p.__bytearray__()), {'mutated': 'literal', 'filename': fn})
    # signature: subpacket added to a parsed signature
    t = sigwork.pgpy_triple('ed25519_0', 'doc-bytes', 'SHA256')
    sp = Packet(bytearray(bytes(t.sig)))
    sp.subpackets.addnew('Policy', hashed=False, uri='https://added.example/' + 'p' * 200)
    sp.update_hlen()
    ctx.count('mutated_then_serialised')
    roundtrip_own(ctx, pgpy, bytes(sp.__bytearray__()), {'mutated': 'signature + unhashed subpacket'})
    sp.subpackets.addnew('NotationData', hashed=True, flags=0x80, name='a@b', value='v' * 300)
    sp.update_hlen()
    ctx.count('mutated_then_serialised')
    roundtrip_own(ctx, pgpy, bytes(sp.__bytearray__()), {'mutated': 'signature + hashed subpacket'})
    # adding one subpacket to a parsed signature leaves every other subpacket as it was (self-certifications with full preference lists,
    # bindings with embedded signatures, certifications with notations): the areas are rebuilt from the parsed objects at that moment
    for signer, kind, optset in (('ed25519_0', 'uid-self', {'ciphers': ['AES256', 'CAST5'], 'hashes': ['SHA512', 'SHA1'], 'compression': ['BZ2', 'Uncompressed', 'ZIP']}),
                                 ('rsa1024_0', 'uid-self', {'compression': ['Uncompressed'], 'keyserver': 'hkp://k.example', 'primary': False}),
                                 ('ecdsa_p256_0', 'bind', {}), ('ed25519_0', 'uid-other', {'notation': {'n@example.org': 'v'}, 'exportable': False}),
                                 ('ed25519_0', 'revoke-key', {'reason': 'Retired', 'comment': 'c'}), ('ed25519_0', 'key-direct-self', {'usage': []})):
        from . import C02
        try:
            t2 = sigwork.pgpy_triple(signer, kind, 'SHA256', C02._mkopts(optset, sigwork.signer_key(signer), pgpy))
        except TypeError:
            continue
        raw0 = bytes(t2.sig)
        before = RS.parse_sig(wire.split(raw0)[0].body)
        for hashed_ in (True, False):
            q = Packet(bytearray(raw0))
            q.subpackets.addnew('Policy', hashed=hashed_, uri='https://added.example/')
            q.update_hlen()
            out_ = bytes(q.__bytearray__())
            ctx.count('mutated_then_serialised')
            ctx.count('evaluations')
            try:
                after = RS.parse_sig(wire.split(out_)[0].body)
            except wire.Malformed as e:
                ctx.fail('own-packet-reserialises-differently', {'where': {'mutated': 'signature + subpacket', 'kind': kind}, 'err': str(e)})
                continue
            for area in ('hsp', 'usp'):
                b_ = [(t_, c_, bytes(x_)) for t_, c_, x_, r_ in before[area]]
                a_ = [(t_, c_, bytes(x_)) for t_, c_, x_, r_ in after[area]]
                added = (area == 'hsp') == hashed_
                rest = [x for x in a_ if not (x[0] == 26 and x[2] == b'https://added.example/')] if added else a_
                if sorted(rest) != sorted(b_):
                    lost = [x[0] for x in b_ if x not in rest]
                    ctx.fail('adding-a-subpacket-changes-other-subpackets', {'kind': kind, 'signer': signer, 'area': area, 'added_to_hashed': hashed_, 'subpacket_types_changed': lost,
                                                                           'before': [(x[0], hx(x[2])[:40]) for x in b_ if x not in rest][:4], 'after': [(x[0], hx(x[2])[:40]) for x in rest if x not in b_][:4]})
    # foreign protected secret-key packets (usage 254 and 255, every algorithm) after an unlock scope: still their own octets, and still a packet
    from . import C06
    for n_, name in enumerate(('rsa1024_0', 'dsa1024_0', 'ecdsa_p256_0', 'ed25519_0', 'cv25519_0', 'ecdh_p256_0')):
        for usage in (254, 255):
            fd = {'key': name, 'usage': usage, 'spec': [3, 1, 0][(n_ + usage) % 3], 'cipher': [7, 9, 3][(n_ + usage) % 3], 'halg': [8, 2][n_ % 2], 'cnt': 0x10}
            fraw, fpw, fm = C06._foreign_blob(fd)
            fk = pgpy.PGPKey.from_blob(fraw)[0]
            try:
                with fk.unlock(fpw.decode()):
                    pass
            except Exception as e:
                ctx.fail('accepted-foreign-packet-cannot-be-serialised', {'where': {'mutated': 'foreign secret key unlocked', 'case': fd}, 'err': repr(e)[:160]})
                continue
            out_ = bytes(fk)
            ctx.count('mutated_then_serialised')
            if out_ != fraw:
                ctx.fail('own-packet-reserialises-differently', {'where': {'mutated': 'foreign secret key after an unlock scope', 'case': fd}, 'lens': [len(fraw), len(out_)], 'packet': hx(fraw[-20:]), 'out': hx(out_[-20:])})
            roundtrip_own(ctx, pgpy, out_, {'mutated': 'foreign secret key after an unlock scope', 'case': fd})
    # key: protected in place, copy of a parsed Latin-1 user id
    import copy
    # secret keys that arrived with old-format headers, protected in place with every cipher block size: the packet grows by
    # S2K specifier + IV + SHA-1, possibly exactly onto a length-width boundary
    for kname in pool.SIGNERS + ['ecdsa_p521_1', 'ecdsa_p521_2', 'cv25519_0', 'ecdh_p521_0', 'ecdsa_p521_short', 'ecdh_p521_short', 'ecdsa_p256_short']:
        for calg in ('AES256', 'CAST5', 'TripleDES', 'Camellia192'):
            pk = pgpy.PGPKey.from_blob(pool.secret_packet(kname, hdr='old'))[0]
            pk.protect('pw', getattr(pgpy.constants.SymmetricKeyAlgorithm, calg), pgpy.constants.HashAlgorithm.SHA1)
            ctx.count('mutated_then_serialised')
            own_blob(ctx, pgpy, bytes(pk), {'mutated': 'old-format key protected in place', 'key': kname, 'cipher': calg, 'len': len(bytes(pk))})
    lat = Packet(bytearray(wire.new_hdr(13, 9) + b'lat\xfc\xe9 uid'))
    cp = copy.copy(lat)
    ctx.count('mutated_then_serialised')
    if bytes(cp.__bytearray__()) != bytes(lat.__bytearray__()):
        ctx.fail('copy-of-parsed-packet-serialises-differently', {'orig': hx(bytes(lat.__bytearray__())), 'copy': hx(bytes(cp.__bytearray__()))})
    roundtrip_own(ctx, pgpy, bytes(cp.__bytearray__()), {'mutated': 'copy of Latin-1 user id'})
    ctx.nontrivial(d)


# ---------------------------------------------------------------- foreign generator
def frame(r, tag, body, allow_partial=True):
    """a header form other implementations may use"""
    forms = ['new', 'new5']
    if tag < 16:
        forms += ['old', 'old2', 'old4']
        if tag in (8, 9, 11, 18):
            forms += ['indeterminate']
    if allow_partial and tag in (8, 9, 11, 18) and len(body) >= 600:
        forms += ['partial', 'partial']
    f = r.choice(forms)
    if f == 'new':
        return wire.new_hdr(tag, len(body)) + body, f
    if f == 'new5':
        return bytes([0xC0 | tag]) + b'\xff' + len(body).to_bytes(4, 'big') + body, f
    if f == 'old':
        return wire.old_hdr(tag, len(body)) + body, f
    if f == 'old2':
        if len(body) < 65536:
            return wire.old_hdr(tag, len(body), 1) + body, f
        return wire.old_hdr(tag, len(body)) + body, 'old'
    if f == 'old4':
        return wire.old_hdr(tag, len(body), 2) + body, f
    if f == 'indeterminate':
        return wire.old_hdr(tag, 0, 3) + body, f
    chunks = [9]
    rest = len(body) - 512
    while rest > 300 and len(chunks) < 4:
        p = r.choice([0, 3, 8])
        chunks.append(p)
        rest -= 1 << p
    # the closing (definite) length in any of its forms: shortest, two-octet where it fits, five-octet
    last = len(body) - sum(1 << p for p in chunks)
    final = r.choice(['min', 5, 5] + ([2] if 192 <= last < 8384 else []))
    return wire.partial_body(tag, body, chunks, final=final), f + ('' if final == 'min' else '-final%s' % final)


def gen_foreign(r, tag):
    """-> packet body (well-formed per RFC 4880) for tag"""
    rb = lambda n: bytes(r.getrandbits(8) for _ in range(n))
    if tag == 1:
        kind = r.choice(['rsa', 'ecdh', 'elg', 'unknown', 'v2'])
        if kind == 'rsa':
            return b'\x03' + rb(8) + bytes([r.choice([1, 2])]) + wire.mpi_enc(r.getrandbits(r.choice([1023, 1024, 2040])) | 1)
        if kind == 'ecdh':
            w = rb(r.choice([40, 48]))
            return b'\x03' + rb(8) + b'\x12' + wire.mpi_of_bytes(b'\x40' + rb(32)) + bytes([len(w)]) + w
        if kind == 'elg':
            return b'\x03' + rb(8) + b'\x10' + wire.mpi_enc(r.getrandbits(1024) | 1) + wire.mpi_enc(r.getrandbits(1020) | 1)
        if kind == 'unknown':
            return b'\x03' + rb(8) + bytes([r.choice([22, 17, 21, 100])]) + rb(r.randint(8, 60))
        return b'\x02' + rb(30)
    if tag == 2:
        kind = r.choice(['v4', 'v4', 'v4', 'v3', 'v5', 'v4unknownalg'])
        if kind.startswith('v4'):
            from . import C05
            sm = pool.mat(r.choice(['ed25519_0', 'rsa1024_0', 'dsa1024_0', 'ecdsa_p256_0']))
            sps, _ = C05.gen_area(r, r.choice(['unknown', 'mix', 'text', 'notation', 'flags', 'boolean', 'prefs', 'lenforms']), r.randrange(50), r.randrange(10))
            hashed, unh = RS.std_areas(sm, r.randrange(1 << 32), b''.join(sps or []))
            body = RS.sign(sm, r.choice([0, 1, 0x10, 0x13, 0x18, 0x1F, 0x20]), 8, hashed, unh + (wire.subpacket(r.choice([100, 26]), rb(r.randint(0, 30))) if r.random() < 0.4 else b''),
                           doc=b'd', primary=RK.pub_body(sm), subkey=RK.pub_body(sm), uid=b'u')
            if kind == 'v4unknownalg':
                body = body[:2] + bytes([r.choice([100, 20, 23])]) + body[3:]
            return body
        if kind == 'v3':
            return b'\x03\x05\x00' + rb(4) + rb(8) + b'\x01\x02' + rb(2) + wire.mpi_enc(r.getrandbits(1023) | 1)
        return b'\x05' + rb(r.randint(20, 80))
    if tag == 3:
        spec = r.choice([0, 1, 3])
        return bytes([4, r.choice([7, 8, 9, 3, 2])]) + sym.s2k_bytes(spec, r.choice([2, 8, 10]), rb(8), r.randrange(256)) + (rb(r.choice([17, 25, 33])) if r.random() < 0.6 else b'')
    if tag == 4:
        return bytes([3, r.choice([0, 1]), r.choice([2, 8, 10]), r.choice([1, 17, 19, 22])]) + rb(8) + bytes([r.choice([0, 1])])
    if tag in (5, 7, 6, 14):
        name = r.choice(['rsa1024_0', 'dsa1024_0', 'elg1024_0', 'ecdsa_p256_0', 'ecdsa_p521_0', 'ed25519_0', 'cv25519_0', 'ecdh_p384_0'])
        m = pool.mat(name, created=r.randrange(1 << 32))
        if r.random() < 0.1:
            return b'\x03' + rb(4) + b'\x00\x00\x01' + wire.mpi_enc(r.getrandbits(1024) | 1) + wire.mpi_enc(65537)   # v3 key: opaque
        if tag in (6, 14):
            if r.random() < 0.1:
                return b'\x04' + rb(4) + bytes([r.choice([100, 23])]) + rb(40)   # unknown algorithm
            return RK.pub_body(m)
        u = r.choice([0, 254, 255, 'gnu1', 'gnu2'])
        if u == 0:
            return RK.sec_body(m)
        if isinstance(u, str):
            return RK.sec_body(m, {'gnu': int(u[3]), 'usage': r.choice([254, 255]), 'serial': rb(16)})
        c = r.choice([7, 9, 3, 2, 12])
        return RK.sec_body(m, dict(usage=u, cipher=c, s2k=(r.choice([0, 1, 3]), r.choice([2, 8]), rb(8), r.randrange(0, 0x40)), iv=rb(sym.blocksize(c)), passphrase=b'pw'))
    if tag == 8:
        alg = r.choice([0, 1, 2, 3])
        inner = b''
        for _ in range(r.randint(1, 3)):
            t2 = r.choice([11, 11, 2, 4, 13])
            b2 = gen_foreign(r, t2)
            inner += wire.new_hdr(t2, len(b2)) + b2 if r.random() < 0.7 or t2 > 15 else wire.old_hdr(t2, len(b2)) + b2
        return bytes([alg]) + sym.compress(alg, inner, r.choice([1, 6, 9]))
    if tag == 9:
        return rb(r.randint(20, 900))
    if tag == 18:
        return b'\x01' + rb(r.randint(40, 1500))
    if tag == 19:
        return rb(20)
    if tag == 10:
        return b'PGP'
    if tag == 11:
        fn = r.choice([b'', b'file.txt', 'ünï.txt'.encode('utf-8'), b'lat\xfc.txt', b'_CONSOLE', b'n' * 255])
        fmt = r.choice([b'b', b't', b'u', b'l', b'1'])
        data = r.choice([b'', b'text\r\nlines\r\n', rb(r.randint(1, 2000)), 'ünïcode'.encode('utf-8')])
        if fmt == b'u' and data[:1] not in (b'', b't'):
            data = 'ünïcode text'.encode('utf-8')
        return fmt + bytes([len(fn)]) + fn + r.choice([0, 1, 2 ** 31, 2 ** 32 - 1, 1234567890]).to_bytes(4, 'big') + data
    if tag == 12:
        return rb(r.randint(1, 4))
    if tag == 13:
        return r.choice([b'', b'Alice <alice@example.org>', 'Ünï (cömment) <u@example.org>'.encode('utf-8'), b'latin1 \xfc\xe9\xff', b'\xff\xfe\x00bin', b'n' * 300])
    if tag == 17:
        out = b''
        for _ in range(r.randint(1, 2)):
            if r.random() < 0.7:
                # image subpacket: header length (little endian) 16 as everybody writes it, or another announced length / version / encoding,
                # in every subpacket length form
                hl = r.choice([16, 16, 16, 32, 17, 20, 0x110])
                hdr = hl.to_bytes(2, 'little') + bytes([r.choice([1, 1, 2]), r.choice([1, 1, 2, 100])]) + bytes(max(0, min(hl, 300) - 4))
                body = hdr + sigwork.JPEG[:r.randint(20, 80)]
                lf = r.choice(['min', 'min', 5, 2])
                out += wire.subpacket(1, body, lenform=lf if (lf != 2 or len(body) + 1 >= 192) else 5)
            else:
                body = rb(r.randint(0, 40))
                out += wire.sp_len_enc(len(body) + 1) + bytes([r.choice([2, 100, 110])]) + body
        return out
    return rb(r.randint(0, 300))


def _foreign(ctx, d, pgpy):
    from pgpy.packet import Packet
    r = ctx.rng('foreign', d['tag'], d['batch'], d['seed'])
    tag = d['tag']
    ctx.flags.setdefault('tags', {})[str(tag)] = 1
    for i in range(d['n']):
        body = gen_foreign(r, tag)
        raw, form = frame(r, tag, body)
        trail = r.choice(TRAIL) if form != 'indeterminate' else b''
        ctx.count('foreign_packets')
        ctx.outcome('foreign_form:' + form)
        ctx.count('evaluations')
        # the reference must agree that this is one well-formed packet with that body
        try:
            chk = wire.split(raw)
            assert len(chk) == 1 and chk[0].body == body and chk[0].tag == tag
        except Exception as e:
            ctx.count('case_crashes')
            ctx.flags.setdefault('crashes', []).append({'case': d, 'error': 'reference rejects its own packet: %r' % e, 'tb': ''})
            continue
        where = {'tag': tag, 'header_form': form, 'body': hx(body)[:240], 'body_len': len(body)}
        buf = bytearray(raw + trail)
        try:
            with time_limit(20):
                p = Packet(buf)
        except Stalled:
            ctx.outcome('foreign_stalled')
            ctx.observe('foreign_packet_parse_stalled')
            continue
        except Exception as e:
            ctx.outcome('foreign_rejected:%d:%s' % (tag, type(e).__name__))
            continue
        ctx.count('foreign_accepted')
        if bytes(buf) != trail:
            ctx.fail('foreign-packet-consumption', dict(where, left=hx(buf)[:60], expected_left=hx(trail)))
            continue
        try:
            out = bytes(p.__bytearray__())
        except Exception as e:
            ctx.fail('accepted-foreign-packet-cannot-be-serialised', dict(where, err=repr(e)[:200]))
            continue
        try:
            q = wire.split(out)
            framed = len(q) == 1 and q[0].tag == tag
        except wire.Malformed as e:
            framed = False
        if not framed:
            ctx.fail('foreign-packet-reserialised-with-inconsistent-header', dict(where, out=hx(out)[:120], out_len=len(out)))
            continue
        f1, f2 = fields(tag, body), fields(tag, q[0].body)
        if f1 != f2:
            ctx.fail('foreign-packet-field-values-changed', dict(where, out_body=hx(q[0].body)[:240], kind=f1[0]))
        t2 = b'\xb4\x01Z' if q[0].lt != 3 else b''    # an indeterminate-length packet extends to the end of the input by definition
        buf2 = bytearray(out + t2)
        try:
            with time_limit(20):
                p2 = Packet(buf2)
            out2 = bytes(p2.__bytearray__())
        except Exception as e:
            ctx.fail('reserialised-foreign-packet-not-accepted-again', dict(where, out=hx(out)[:200], err=repr(e)[:200]))
            continue
        if bytes(buf2) != t2 or out2 != out:
            ctx.fail('reserialised-foreign-packet-not-a-fixed-point', dict(where, out=hx(out)[:200], out2=hx(out2)[:200], left=hx(buf2)[:20]))
        _copy_law(ctx, p2, out, where)
        if out != raw:
            ctx.count('foreign_normalised')
        ctx.nontrivial(hx(__import__('hashlib').sha1(raw).digest()[:8]))
        if len(ctx.samples) < 4 and i == 0:
            ctx.sample({'tag': tag, 'header_form': form, 'packet': hx(raw)[:120]})


def post_merge(counters, flags):
    counters['tags_covered'] = len(flags.get('tags', {}))
