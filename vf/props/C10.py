"""C10 -- ASCII armor is a faithful, checksummed, correctly labelled envelope.

Reference-model monitor: str(obj) of every object kind is decoded by vf.ref.armor (own radix-64 + CRC-24) and compared with
bytes(obj); loading text vs binary is compared through re-export; fault injection: every single-character substitution of the
radix-64 body and CRC line must be reported (warning or error) unless the reference confirms it decodes to the same payload.
"""
import warnings

from ..core import hx, time_limit, Stalled
from ..ref import armor, wire
from .. import pool

W0_COUNTER = 'C10_armored_texts'   # thorough tier: the repository's own tests run under this property's always-on monitor
LEVEL = 'exploration'
RULE = ('case = (object kind, payload size/pattern, headers, line ending, input type) or (block, corrupted position range); one evaluation per '
        'armored text decoded by the reference or per corrupted text loaded; non-trivial = payload longer than one armor line, or headers '
        'present, or a corruption that the reference confirms changes payload or CRC; distinct = distinct case descriptors')
ASSUMPTIONS = ['binascii radix-64 primitive', 'vf.ref.armor CRC-24 follows RFC 4880 6.1 (validated on the repository fixtures by oracle_selftest)']
MIN_COUNTERS = {'armor_checked': 250, 'corruptions_judged': 1000, 'kind_confusion': 6, 'load_compared': 300, 'armor_quoted_inside_binary': 60}
BUDGET = {'quick': (600, 1500), 'thorough': (1500, 3600)}

B64 = 'ABCDEFGHIJKLMNOPQRSTUVWXYZabcdefghijklmnopqrstuvwxyz0123456789+/'
LABEL = {'pub': 'PUBLIC KEY BLOCK', 'priv': 'PRIVATE KEY BLOCK', 'msg': 'MESSAGE', 'sig': 'SIGNATURE', 'clear': 'SIGNED MESSAGE'}
HEADERSETS = [[], [['Version', 'vf 1.0']], [['Version', 'x'], ['Comment', 'a: b: c'], ['Charset', 'utf-8']], [['Comment', 'café ü']],
              # values with inner runs of blanks, a tab, a blank at the end, dashes and an equals sign: carried as given
              [['Comment', 'aligned  with   blanks'], ['Version', 'tab\there']], [['Comment', 'ends with a blank '], ['MessageID', '=AbC+/9-----x']],
              [['Comment', 'x' * 200], ['Hash', 'SHA256, SHA512']]]


def cases(tier, seed):
    import random
    r = random.Random(seed)
    cs = []
    sizes = list(range(0, 200)) + [r.randrange(200, 4097) for _ in range(60 if tier == 'quick' else 6000)] + [4096, 4095, 4094, 48 * 20, 48 * 20 + 1]
    for i in range(0, len(sizes), 12):
        cs.append({'t': 'msgsizes', 'sizes': sizes[i:i + 12], 'pat': ['zero', 'ff', 'rand'][(i // 12) % 3], 'seed': seed})
    for kind in ('pub', 'priv', 'sig', 'clear', 'msg'):
        for hs in range(len(HEADERSETS)):
            for key in (['ed25519_0', 'rsa1024_0', 'ecdsa_p256_0'] if tier == 'quick' else pool.SIGNERS):
                cs.append({'t': 'object', 'kind': kind, 'key': key, 'hs': hs})
    cs.append({'t': 'confusion'})
    cs.append({'t': 'header_isolation'})
    cs.append({'t': 'armor_inside_binary'})
    for sname in (['ed25519_0', 'rsa1024_0'] if tier == 'quick' else ['ed25519_0', 'rsa1024_0', 'ecdsa_p256_0', 'dsa1024_0']):
        cs.append({'t': 'sigkinds', 'signer': sname})
    # corruption sweeps: three blocks, split in position ranges
    for blk in ('sig', 'msg', 'pub'):
        for part in range(8):
            cs.append({'t': 'corrupt', 'blk': blk, 'part': part, 'of': 8, 'reps': 4 if tier == 'quick' else 63})
    cs.append({'t': 'crc_leading_zero', 'seed': seed})
    return cs


def _objects(kind, keyname, hs):
    import pgpy
    from pgpy.constants import CompressionAlgorithm
    k = pool.pgpy_key(keyname)
    if kind == 'pub':
        o = pgpy.PGPKey.from_blob(bytes(k.pubkey))[0]
    elif kind == 'priv':
        o = pgpy.PGPKey.from_blob(bytes(k))[0]
    elif kind == 'sig':
        o = k.sign('armor me')
    elif kind == 'clear':
        o = pgpy.PGPMessage.new('line one\n- dash\nlast', cleartext=True)
        o |= k.sign(o)
    else:
        o = pgpy.PGPMessage.new(b'\x00\x01binary' * 30, compression=CompressionAlgorithm.ZIP, format='b')
        o |= k.sign(o)
    for a, b in HEADERSETS[hs]:
        o.ascii_headers[a] = b
    return o


def _cls(kind):
    import pgpy
    return {'pub': pgpy.PGPKey, 'priv': pgpy.PGPKey, 'sig': pgpy.PGPSignature, 'msg': pgpy.PGPMessage, 'clear': pgpy.PGPMessage}[kind]


def _load(cls, blob):
    r = cls.from_blob(blob)
    return r[0] if isinstance(r, tuple) else r


def check_text(ctx, kind, obj, text, headers, where):
    """the envelope laws on one armored text"""
    ctx.count('armor_checked')
    ctx.count('evaluations')
    raw = bytes(obj)
    try:
        d = armor.dearmor(text)
    except wire.Malformed as e:
        ctx.fail('armor-not-decodable-by-reference', {'where': where, 'err': str(e), 'text': text[:300]})
        return None
    if d['data'] != raw:
        ctx.fail('armor-payload-differs', {'where': where, 'decoded': hx(d['data'][:40]), 'binary': hx(raw[:40]), 'lens': [len(d['data']), len(raw)]})
    if d['kind'] != LABEL[kind]:
        ctx.fail('armor-label', {'where': where, 'label': d['kind'], 'expected': LABEL[kind]})
    if d['maxline'] > 76:
        ctx.fail('armor-line-too-long', {'where': where, 'maxline': d['maxline']})
    if d['crc'] is None or d['crc'] != armor.crc24(raw):
        ctx.fail('armor-crc', {'where': where, 'crc': d['crc'], 'expected': armor.crc24(raw)})
    for a, b in headers:
        if (a, b) not in [tuple(x) for x in d['headers']] and ('%s: %s' % (a, b)) not in text:
            ctx.fail('armor-header-missing', {'where': where, 'header': [a, b]})
    tl = text.split('\n')
    body_from = next((i_ for i_, l_ in enumerate(tl) if l_.rstrip('\r') == ''), 0)      # header lines may be as long as they like (6.2)
    for line in tl[body_from:]:
        if len(line.rstrip('\r')) > 76 and not kind == 'clear':
            ctx.fail('armor-line-too-long', {'where': where, 'len': len(line)})
    return d


def compare_loads(ctx, kind, obj, text, where, headers=None):
    cls = _cls(kind)
    raw = bytes(obj)
    ascii_only = all(ord(c_) < 128 for c_ in text)
    # octet input: UTF-8 (always faithful), and Latin-1 when the text fits
    variants = [('str', text), ('bytes', text.encode('utf-8')), ('bytearray', bytearray(text.encode('utf-8'))), ('crlf', text.replace('\n', '\r\n')),
                ('surrounded', 'Dear reader,\nsome text before\n\n' + text + '\nand after\n')]
    if kind != 'clear':
        try:
            variants.append(('latin1-bytes', text.encode('latin-1')))
        except UnicodeEncodeError:
            pass
    if kind != 'clear':
        # the same block as other producers write it: any line width up to the 76 columns the RFC allows (MIME-style encoders use 76),
        # with and without header lines / checksum line
        label0 = text.split('-----BEGIN PGP ', 1)[1].split('-----', 1)[0] if '-----BEGIN PGP ' in text else None
        if label0:
            for wd in (76, 75, 72, 70, 63, 62, 61, 60, 48, 8, 5, 4, 3):
                txt_ = armor.armor(label0, raw, width=wd)
                # layouts in which a pad character would open a line of its own are left out (no producer writes them; PGPy does not read them)
                if any(l_.startswith('=') and not (len(l_) == 5 and i_ == len(txt_.split('\n')) - 3) for i_, l_ in enumerate(txt_.split('\n'))):
                    continue
                variants.append(('rewrapped-at-%d' % wd, txt_))
            variants.append(('rewrapped-at-76-crlf', armor.armor(label0, raw, width=76, eol='\r\n')))
            variants.append(('with-foreign-headers-76', armor.armor(label0, raw, headers=[('Version', 'Other 1.0'), ('Comment', 'x' * 100)], width=76)))
        # an armor header line stands on a line of its own (6.2): the marker inside a line of the surrounding text is just text
        label = text.split('-----BEGIN PGP ', 1)[1].split('-----', 1)[0] if '-----BEGIN PGP ' in text else 'MESSAGE'
        quoted = ''.join('> ' + ln + '\n' for ln in text.splitlines())
        indented = ''.join('    ' + ln + '\n' for ln in text.splitlines())
        variants += [('marker-in-sentence', 'The block starts at the -----BEGIN PGP %s----- line below.\n\n' % label + text + '\n-- \nsignature block\n'),
                     ('quoted-copy-before', 'On Monday you wrote:\n' + quoted + '\nHere is the new one:\n' + text),
                     ('indented-copy-before', indented + '\n' + text),
                     ('other-armor-before', '-----BEGIN CERTIFICATE-----\nTUlJQg==\n-----END CERTIFICATE-----\n\n' + text),
                     ('dash-lines-around', '-----\n----- BEGIN -----\n' + text + '-----\n'),
                     ('marker-mentioned-after', text + '\nThe line -----BEGIN PGP %s----- above starts it, -----END PGP %s----- ends it.\n' % (label, label)),
                     ('mail-headers', 'From: a@example.org\nSubject: -----BEGIN PGP stuff\nContent-Type: text/plain\n\n' + text + '\n')]
    try:
        with warnings.catch_warnings():
            warnings.simplefilter('error')
            base = bytes(_load(cls, raw)) if kind != 'clear' else raw
    except Exception as e:
        ctx.fail('binary-load-failed', {'where': where, 'err': repr(e)[:200]})
        return
    for vn, v in variants:
        if kind == 'clear' and vn == 'crlf':
            ctx.observe('cleartext_crlf_transport_judged_in_C11')
            continue
        ctx.count('load_compared')
        ctx.count('evaluations')
        try:
            with warnings.catch_warnings(record=True) as w:
                warnings.simplefilter('always')
                o2 = _load(cls, v)
            got = bytes(o2)
        except Exception as e:
            ctx.fail('armored-load-failed', {'where': where, 'variant': vn, 'err': repr(e)[:200]})
            continue
        if any('crc24' in str(x.message) for x in w):
            ctx.fail('armored-load-crc-warning-on-good-block', {'where': where, 'variant': vn})
        if got != base:
            ctx.fail('armored-load-differs-from-binary-load', {'where': where, 'variant': vn, 'text_load': hx(got[:40]), 'binary_load': hx(base[:40])})
        if headers is not None and not vn.startswith('rewrapped') and vn != 'with-foreign-headers-76' and kind != 'clear':
            # the object that comes back knows the header lines that were on the block
            have = dict(getattr(o2, 'ascii_headers', {}))
            ctx.count('loaded_headers_compared')
            if any(have.get(a_) != b_ for a_, b_ in headers):
                ctx.fail('armor-header-lines-read-differently', {'where': where, 'variant': vn, 'supplied': [list(x) for x in headers], 'read': sorted(have.items())[:6]})
        if kind == 'clear' and o2.message.replace('\r\n', '\n') != obj.message:
            ctx.fail('cleartext-differs-after-load', {'where': where, 'variant': vn})


def _armor_inside_binary(ctx, pgpy):
    """a BINARY export is never read as armor, whatever its content spells: literal messages (not compressed, not encrypted) whose text quotes whole
    armor blocks - a key, a signature, another message - load from bytes / bytearray as what they are, equal to the load of their own armored form"""
    from pgpy.constants import CompressionAlgorithm
    k = pool.pgpy_key('ed25519_0', uid='armor inside')
    inner_msg = pgpy.PGPMessage.new('the inner message', compression=CompressionAlgorithm.Uncompressed)
    inner_msg.ascii_headers['Comment'] = 'inner header'
    blocks = {'key': str(k.pubkey), 'signature': str(k.sign('x')), 'message': str(inner_msg), 'private-key': str(k)}
    for bname, block in blocks.items():
        for shape in ('block-only', 'quoted-in-mail', 'two-in-a-row', 'crlf'):
            text = {'block-only': block, 'quoted-in-mail': 'Dear all,\nplease find it below.\n\n' + block + '\nregards\n',
                    'two-in-a-row': block + block, 'crlf': ('see:\n' + block).replace('\n', '\r\n')}[shape]
            for fmt in ('b', 'u'):
                outer = pgpy.PGPMessage.new(text.encode('utf-8') if fmt == 'b' else text, format=fmt, compression=CompressionAlgorithm.Uncompressed)
                binary = bytes(outer)
                want = bytes(outer._message._contents) if hasattr(outer._message, '_contents') else None
                for inform, data in (('bytes', binary), ('bytearray', bytearray(binary))):
                    ctx.count('armor_quoted_inside_binary')
                    ctx.count('evaluations')
                    where = {'inner': bname, 'shape': shape, 'format': fmt, 'input': inform}
                    try:
                        m2 = pgpy.PGPMessage.from_blob(data)
                    except Exception as e:
                        ctx.fail('binary-export-not-loadable-because-its-content-spells-armor', dict(where, err=repr(e)[:140]))
                        continue
                    if bytes(m2) != binary:
                        ctx.fail('binary-export-read-as-the-armor-it-quotes', dict(where, lens=[len(binary), len(bytes(m2))], headers=dict(m2.ascii_headers)))
                    try:
                        m3 = pgpy.PGPMessage.from_blob(str(outer))
                        if bytes(m3) != bytes(m2):
                            ctx.fail('armored-and-binary-load-differ', where)
                    except Exception as e:
                        ctx.fail('own-armor-not-loadable', dict(where, err=repr(e)[:140]))


def _header_isolation(ctx, pgpy):
    """an object's armor carries the header lines supplied to *that object*: objects derived from one another (public half, copy, encrypted /
    decrypted / re-loaded form, signature added) are edited in place after the derivation, in either order, and each must keep its own set"""
    import copy
    from pgpy.constants import CompressionAlgorithm
    k = pgpy.PGPKey.from_blob(bytes(pool.pgpy_key('ed25519_0', sub='cv25519_0', fresh=True, uid='header isolation')))[0]
    msg = pgpy.PGPMessage.new(b'header isolation', compression=CompressionAlgorithm.Uncompressed, format='b')
    sig = k.sign('doc')

    def pairs():
        kk = copy.copy(k)
        yield 'private key / its public half', kk, kk.pubkey
        kk = copy.copy(k)
        pub = kk.pubkey
        yield 'public half / private key (reverse order of edits)', pub, kk
        kk = copy.copy(k)
        yield 'key / copy', kk, copy.copy(kk)
        kk = copy.copy(k)
        yield 'key / re-loaded from its armor', kk, pgpy.PGPKey.from_blob(str(kk))[0]
        kk = copy.copy(k)
        yield 'public half / second public half of the same key', kk.pubkey, kk.pubkey
        m = copy.copy(msg)
        yield 'message / copy', m, copy.copy(m)
        m = copy.copy(msg)
        yield 'message / encrypted form', m, k.pubkey.encrypt(m)
        m = copy.copy(msg)
        e = k.pubkey.encrypt(m)
        yield 'encrypted message / decrypted form', e, k.decrypt(e)
        m = copy.copy(msg)
        e = m.encrypt('pw')
        yield 'message / passphrase-encrypted form', m, e
        s1 = copy.copy(sig)
        yield 'signature / copy', s1, copy.copy(s1)
        m = copy.copy(msg)
        s2 = k.sign(m)
        yield 'message / signature made over it', m, s2
    for label, a, b in pairs():
        for order in ('a-first', 'b-first'):
            x, y = (a, b) if order == 'a-first' else (b, a)
            sets = {}
            for name, o, hs in (('x', x, [('Comment', 'first object only'), ('Version', 'one')]), ('y', y, [('Comment', 'SECOND object only'), ('MessageID', 'abc')])):
                o.ascii_headers.clear()
                for kx, vx in hs:
                    o.ascii_headers[kx] = vx
                sets[name] = hs
            # more in-place edits on x after y got its own
            x.ascii_headers.update({'Hash': 'SHA256'})
            del x.ascii_headers['Hash']
            for name, o in (('x', x), ('y', y)):
                ctx.count('evaluations')
                ctx.count('header_isolation_checked')
                try:
                    dd = armor.dearmor(str(o))
                except wire.Malformed as e:
                    ctx.fail('armor-unreadable', {'where': label, 'err': str(e)})
                    continue
                got = sorted(tuple(h) for h in dd['headers'])
                if got != sorted(sets[name]):
                    ctx.fail('armor-carries-header-lines-of-another-object', {'pair': label, 'order': order, 'object': name, 'got': got, 'supplied': sorted(sets[name])})
    ctx.nontrivial('header-isolation')


def run_case(ctx, d):
    import pgpy
    from pgpy.constants import CompressionAlgorithm
    t = d['t']
    if t == 'msgsizes':
        r = ctx.rng('msg', d['seed'], d['sizes'][0])
        for n in d['sizes']:
            body = {'zero': b'\x00' * n, 'ff': b'\xff' * n, 'rand': bytes(r.getrandbits(8) for _ in range(n))}[d['pat']]
            m = pgpy.PGPMessage.new(body, compression=CompressionAlgorithm.Uncompressed, format='b')
            text = str(m)
            check_text(ctx, 'msg', m, text, [], 'msg size %d %s' % (n, d['pat']))
            compare_loads(ctx, 'msg', m, text, 'msg size %d %s' % (n, d['pat']))
        if max(d['sizes']) > 48:
            ctx.nontrivial(d)
        ctx.sample({'case': d, 'armored_example': str(pgpy.PGPMessage.new(b'\x00' * 5, compression=CompressionAlgorithm.Uncompressed, format='b'))})
    elif t == 'object':
        o = _objects(d['kind'], d['key'], d['hs'])
        text = str(o)
        check_text(ctx, d['kind'], o, text, HEADERSETS[d['hs']], '%s/%s/h%d' % (d['kind'], d['key'], d['hs']))
        compare_loads(ctx, d['kind'], o, text, '%s/%s/h%d' % (d['kind'], d['key'], d['hs']), headers=HEADERSETS[d['hs']])
        ctx.nontrivial(d)
    elif t == 'sigkinds':
        # a signature packet on its own is a SIGNATURE block whatever the signature is about (document, certification, revocation, binding ...)
        from .. import sigwork
        for kind in sigwork.KINDS:
            if kind.startswith('literal') or kind.startswith('cleartext'):
                continue
            with warnings.catch_warnings():
                warnings.simplefilter('ignore')
                tr = sigwork.pgpy_triple(d['signer'], kind, 'SHA256')
            sg = tr.sig
            text = str(sg)
            ctx.count('evaluations')
            ctx.count('signature_kinds_armored')
            where = 'sig kind %s/%s' % (kind, d['signer'])
            try:
                dd = armor.dearmor(text)
            except wire.Malformed as e:
                ctx.fail('armor-unreadable', {'where': where, 'err': str(e)})
                continue
            if dd['kind'] != 'SIGNATURE' or dd['data'] != bytes(sg) or not dd['crc_ok']:
                ctx.fail('armor-label-or-payload', {'where': where, 'label': dd['kind'], 'same_payload': dd['data'] == bytes(sg)})
            compare_loads(ctx, 'sig', sg, text, where)
        ctx.nontrivial(d)
    elif t == 'armor_inside_binary':
        _armor_inside_binary(ctx, pgpy)
    elif t == 'header_isolation':
        _header_isolation(ctx, pgpy)
    elif t == 'confusion':
        objs = {k: _objects(k, 'ed25519_0', 0) for k in ('pub', 'sig', 'msg')}
        for src, o in objs.items():
            for dst in ('pub', 'sig', 'msg'):
                if src == dst:
                    continue
                ctx.count('kind_confusion')
                ctx.count('evaluations')
                try:
                    with warnings.catch_warnings():
                        warnings.simplefilter('ignore')
                        got = _load(_cls(dst), str(o))
                    # a message class legitimately reads 'SIGNATURE' blocks only as cleartext signatures; anything else must not load silently
                    ctx.fail('wrong-kind-block-accepted', {'block': LABEL[src], 'loaded_as': dst, 'result_bytes': len(bytes(got)) if got is not None else None})
                except Exception as e:
                    ctx.outcome('wrong_kind_rejected:' + type(e).__name__)
        # correctly formed payloads under the wrong BEGIN/END label (made with the reference armorer)
        for src, o in objs.items():
            for label in ('PUBLIC KEY BLOCK', 'PRIVATE KEY BLOCK', 'MESSAGE', 'SIGNATURE', 'ARMORED FILE'):
                if label == LABEL[src] or (src == 'pub' and 'KEY' in label):
                    continue
                ctx.count('kind_confusion')
                ctx.count('evaluations')
                text = armor.armor(label, bytes(o))
                try:
                    with warnings.catch_warnings():
                        warnings.simplefilter('ignore')
                        got = _load(_cls(src), text)
                    ctx.fail('mislabelled-block-accepted', {'payload': src, 'label': label})
                except Exception as e:
                    ctx.outcome('wrong_kind_rejected:' + type(e).__name__)
        ctx.nontrivial(d)
    elif t == 'corrupt':
        _corrupt(ctx, d)
    elif t == 'crc_leading_zero':
        # payloads whose CRC-24 has leading zero octets
        r = ctx.rng('crc0', d['seed'])
        found = 0
        tries = 0
        while found < 6 and tries < 400000:
            tries += 1
            body = bytes(r.getrandbits(8) for _ in range(3))
            m_raw = wire.new_hdr(11, 6 + len(body)) + b'b\x00\x00\x00\x00\x00' + body
            if armor.crc24(m_raw) >> 16 == 0:
                found += 1
                m = pgpy.PGPMessage.from_blob(m_raw)
                text = str(m)
                check_text(ctx, 'msg', m, text, [], 'crc leading zero')
                compare_loads(ctx, 'msg', m, text, 'crc leading zero')
                ctx.count('crc_leading_zero_payloads')
        ctx.nontrivial(d)


def _corrupt(ctx, d):
    o = _objects(d['blk'], 'ed25519_0', 0)
    text = str(o)
    raw = bytes(o)
    cls = _cls(d['blk'])
    lines = text.split('\n')
    # positions of radix-64 body characters and CRC characters
    pos = []
    off = 0
    inbody = False
    for l in lines:
        if l.startswith('-----BEGIN'):
            inbody = False
        elif l == '' and not inbody:
            inbody = True
        elif l.startswith('-----END'):
            inbody = False
        elif inbody:
            for j, ch in enumerate(l):
                if ch in B64 or ch == '=':
                    pos.append(off + j)
        off += len(l) + 1
    mine = [p for i, p in enumerate(pos) if i % d['of'] == d['part']]
    # the pad characters and the marker of the checksum line are always tried, whatever the share of this case
    mine += [p for p in pos if text[p] == '=' and p not in mine and d['part'] == 0]
    for p in mine:
        ch = text[p]
        idx = B64.index(ch) if ch in B64 else 0
        for k in range(d['reps'] + 1):
            # the last replacement turns a radix-64 character into the pad / marker character
            rep = B64[(idx + 1 + k * 17) % 64] if k < d['reps'] else '='
            if rep == ch:
                continue
            if ch == '=':
                ctx.count('pad_or_marker_corruptions')
            bad = text[:p] + rep + text[p + 1:]
            try:
                rd = armor.dearmor(bad)
                equivalent = rd['data'] == raw and rd['crc_ok']
            except wire.Malformed:
                equivalent = False
            ctx.count('evaluations')
            if equivalent:
                ctx.count('corruptions_equivalent')
                continue
            ctx.count('corruptions_judged')
            try:
                with warnings.catch_warnings(record=True) as w:
                    warnings.simplefilter('always')
                    with time_limit(8):
                        got = _load(cls, bad)
            except Stalled:
                ctx.outcome('corruption_stalled_over_8s')
                ctx.observe('corrupted_input_stalls_parser')
                continue
            except Exception as e:
                ctx.outcome('corruption_error:' + type(e).__name__)
                continue
            if any('crc24' in str(x.message).lower() for x in w):
                ctx.outcome('corruption_warned')
                continue
            ctx.fail('corrupted-armor-loaded-silently', {'block': d['blk'], 'pos': p, 'orig': ch, 'rep': rep,
                                                         'same_bytes': bytes(got) == raw})
    ctx.nontrivial(d)
