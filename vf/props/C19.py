"""C19 -- the keyring index stays consistent over any load / unload history.

History monitor with a shadow model (the list of loaded key objects).  Universe: four keys that share names, comments and e-mail
addresses, each with a subkey, public and private halves coexisting (8 loadable objects).  Bounded-exhaustive: every history of
load/unload operations up to length 4 (quick) / 5 (thorough); plus random walks of length <= 40 that also load from binary, armored
text, files and lists.  After every step: fingerprints(), len(), membership and selection of every identifier of every loaded and
unloaded key (fingerprints with and without spaces, key ids, short ids, names, comments, e-mails), selection by signature and message.
"""
import itertools
import os
import warnings

from .. import pool

LEVEL = 'exploration'
RULE = ('case = block of load/unload histories (exhaustive enumeration by index) or one random walk; one evaluation per step at which all invariants are '
        'checked; non-trivial history = at least one unload followed by a load, or two loaded keys sharing an alias; distinct = distinct histories '
        '(digest of the operation sequence); the evidence also reports distinct abstract index states (multiset of loaded objects) visited')
ASSUMPTIONS = ['identifiers are computed from public attributes of the key objects (fingerprint, userids)']
MIN_COUNTERS = {'quick': {'histories': 90000, 'steps_checked': 150000, 'selections_checked': 2000000, 'walk_steps': 300, 'multi_key_loads': 20, 'multi_issuer_selections': 300, 'subkey_issued_selections': 30},
                'thorough': {'histories': 1000000}}
BUDGET = {'quick': (600, 1500), 'thorough': (2400, 3600)}
TECHNIQUE = 'runtime monitoring: bounded-exhaustive history enumeration + random walks against a shadow model; invariants checked after every step'
MAX_JOBS = 16

NAMES = ['ed25519_0', 'ed25519_1', 'ed25519_2', 'ed25519_3']
SUBS = ['cv25519_0', 'cv25519_1', 'cv25519_2', 'ecdh_p256_0']
UIDS = [[('Shared Name', 'c1', 'a@example.org'), ('Alice', '', 'shared@example.org')],
        [('Shared Name', 'shared comment', 'b@example.org')],
        # two identities of ONE key under the same name, told apart by comment and address only
        [('Carol', '', 'shared@example.org'), ('Carol', 'work', 'carol@work.example'), ('Carol', 'shared comment', 'carol@home.example')],
        [('Dave', 'shared comment', 'd@example.org'), ('Shared Name', '', 'dave2@example.org')]]

_U = None


def universe():
    """8 loadable objects: (private, public) x 4"""
    global _U
    if _U is None:
        import pgpy
        from pgpy.constants import KeyFlags
        objs = []
        with warnings.catch_warnings():
            warnings.simplefilter('ignore')
            for i, n in enumerate(NAMES):
                # three of the identifiers in the universe begin with a zero octet (key id of key 0, fingerprint of key 1, short id of key 2's subkey)
                k = pool.pgpy_bare(n, created=pool.created_with_zero(n, ['keyid', 'fpr'][i]) if i < 2 else None)
                for name, comment, email in UIDS[i]:
                    k.add_uid(pgpy.PGPUID.new(name, comment=comment, email=email), usage={KeyFlags.Sign, KeyFlags.Certify})
                k.add_subkey(pool.pgpy_bare(SUBS[i], created=pool.created_with_zero(SUBS[i], 'shortid') if i == 2 else None), usage={KeyFlags.EncryptCommunications})
                if i == 3:
                    # one key also has a signing subkey: signatures issued by a subkey select that subkey
                    k.add_subkey(pool.pgpy_bare('ecdsa_p256_1'), usage={KeyFlags.Sign})
                pub = pgpy.PGPKey.from_blob(bytes(k.pubkey))[0]
                objs += [k, pub]
        _U = objs
    return _U


def idents(k):
    """identifier -> kind, for a primary key object (with its subkeys' fingerprint identifiers)"""
    out = {}
    fp = str(k.fingerprint)
    out[fp] = 'fingerprint'
    out[' '.join(fp[i:i + 4] for i in range(0, 40, 4))] = 'fingerprint-spaced'
    out[fp[-16:]] = 'keyid'
    out[fp[-8:]] = 'shortid'
    for u in k.userids:
        if u.name:
            out[u.name] = 'name'
        if u.comment:
            out[u.comment] = 'comment'
        if u.email:
            out[u.email] = 'email'
    return out


def carries(obj, ident):
    fp = str(obj.fingerprint)
    i2 = ident.replace(' ', '')
    if i2 in (fp, fp[-16:], fp[-8:]):
        return True
    for u in obj.userids:
        if ident in (u.name, u.comment, u.email):
            return True
    return False


def cases(tier, seed):
    cs = []
    L = 4 if tier == 'quick' else 5
    nops = 16
    total = sum(nops ** l for l in range(1, L + 1))
    # histories of exactly length L cover all shorter ones as prefixes (invariants are checked after every step)
    n = nops ** L
    blocks = 64 if tier == 'quick' else 512
    per = -(-n // blocks)
    for b in range(blocks):
        cs.append({'t': 'exhaustive', 'L': L, 'lo': b * per, 'hi': min(n, (b + 1) * per)})
    # deeper histories over a reduced alphabet: three objects that share aliases (A private, A public, B private) -> 6 operations
    L2 = 6 if tier == 'quick' else 7
    n2 = 6 ** L2
    per2 = -(-n2 // 32)
    for b in range(32):
        cs.append({'t': 'exhaustive', 'L': L2, 'lo': b * per2, 'hi': min(n2, (b + 1) * per2), 'objs': [0, 1, 2]})
    for w in range(16 if tier == 'quick' else 200):
        cs.append({'t': 'walk', 'w': w, 'seed': seed, 'n': 40})
    cs.append({'t': 'select'})
    cs.append({'t': 'subunload'})
    return cs


def check_all(ctx, kr, loaded, where, sel_cache):
    """all invariants against the model `loaded` (list of primary key objects currently loaded, in load order, no duplicates)"""
    U = universe()
    ctx.count('steps_checked')
    ctx.count('evaluations')
    exp_fps = set()
    nobj = 0
    for k in loaded:
        exp_fps.add(str(k.fingerprint))
        nobj += 1
        for sk in k.subkeys.values():
            exp_fps.add(str(sk.fingerprint))
            nobj += 1
    got_fps = {str(f) for f in kr.fingerprints()}
    if got_fps != exp_fps:
        ctx.fail('fingerprints-differ-from-loaded-keys', {'where': where, 'missing': sorted(exp_fps - got_fps), 'extra': sorted(got_fps - exp_fps)})
    if len(kr) != nobj:
        ctx.fail('len-differs-from-loaded-objects', {'where': where, 'len': len(kr), 'expected': nobj})
    for half in ('public', 'private'):
        e = {str(x.fingerprint) for k in loaded if k.is_public == (half == 'public') for x in [k] + list(k.subkeys.values())}
        g = {str(f) for f in kr.fingerprints(keyhalf=half)}
        if e != g:
            ctx.fail('fingerprints-filter-%s' % half, {'where': where, 'missing': sorted(e - g), 'extra': sorted(g - e)})
    loaded_objs = {id(k) for k in loaded} | {id(sk) for k in loaded for sk in k.subkeys.values()}
    loaded_idents = {}
    for k in loaded:
        for ident, kind in sel_cache[id(k)].items():
            loaded_idents.setdefault(ident, kind)
        for sk in k.subkeys.values():
            for ident, kind in sel_cache[id(sk)].items():
                loaded_idents.setdefault(ident, kind)
    for ident, kind in loaded_idents.items():
        ctx.count('selections_checked')
        if ident not in kr:
            ctx.fail('identifier-of-loaded-key-not-in-keyring', {'where': where, 'identifier': ident, 'kind': kind})
            continue
        try:
            with kr.key(ident) as got:
                pass
        except KeyError:
            ctx.fail('identifier-of-loaded-key-selects-nothing', {'where': where, 'identifier': ident, 'kind': kind})
            continue
        if id(got) not in loaded_objs:
            ctx.fail('identifier-selects-unloaded-key', {'where': where, 'identifier': ident, 'kind': kind})
        elif not carries(got if got.is_primary else got, ident) and not (got.is_primary is False and carries(got, ident)):
            ctx.fail('identifier-selects-key-not-carrying-it', {'where': where, 'identifier': ident, 'kind': kind, 'got': str(got.fingerprint)})
    # identifiers that belong only to keys that are not loaded
    for k in U:
        if any(k is x for x in loaded):
            continue
        for obj in [k] + list(k.subkeys.values()):
            for ident, kind in sel_cache[id(obj)].items():
                if ident in loaded_idents:
                    continue
                ctx.count('selections_checked')
                if ident in kr:
                    ctx.fail('identifier-of-unloaded-key-still-in-keyring', {'where': where, 'identifier': ident, 'kind': kind})
                    continue
                try:
                    with kr.key(ident) as got:
                        ctx.fail('identifier-of-unloaded-key-selects-a-key', {'where': where, 'identifier': ident, 'kind': kind})
                except KeyError:
                    pass


def sel_cache_for(U):
    c = {}
    for k in U:
        c[id(k)] = idents(k)
        for sk in k.subkeys.values():
            fp = str(sk.fingerprint)
            c[id(sk)] = {fp: 'sub-fingerprint', ' '.join(fp[i:i + 4] for i in range(0, 40, 4)): 'sub-fingerprint-spaced', fp[-16:]: 'sub-keyid', fp[-8:]: 'sub-shortid'}
    return c


def run_case(ctx, d):
    import pgpy
    with warnings.catch_warnings():
        warnings.simplefilter('ignore')
        U = universe()
        sc = sel_cache_for(U)
        if d['t'] == 'exhaustive':
            L = d['L']
            states = set()
            prev = None
            kr = None
            loaded = None
            objs = d.get('objs')
            base = 16 if objs is None else 2 * len(objs)
            for idx in range(d['lo'], d['hi']):
                ops = []
                x = idx
                for _ in range(L):
                    v = x % base
                    x //= base
                    if objs is not None:
                        v = objs[v % len(objs)] + (8 if v >= len(objs) else 0)
                    ops.append(v)
                ops.reverse()
                # reuse the common prefix with the previous history: rebuild only when needed (cheap objects, so just rebuild)
                kr = pgpy.PGPKeyring()
                loaded = []
                ctx.count('histories')
                for step, op in enumerate(ops):
                    o = U[op % 8]
                    if op < 8:
                        kr.load(o)
                        if not any(o is x_ for x_ in loaded):
                            loaded.append(o)
                    else:
                        kr.unload(o)
                        loaded = [x_ for x_ in loaded if x_ is not o]
                    # invariants after every step; prefixes shared with other histories are re-checked only at the last two steps
                    if step >= L - 2:
                        check_all(ctx, kr, loaded, {'history': ['%s%d' % ('L' if p < 8 else 'U', p % 8) for p in ops[:step + 1]]}, sc)
                    states.add(tuple(sorted(U.index(x_) for x_ in loaded)))
                if any(a >= 8 and b < 8 for a, b in zip(ops, ops[1:])):
                    if idx % 97 == 0:
                        ctx.nontrivial({'ops': ops})
            ctx.count('abstract_states', 0)
            ctx.flags.setdefault('states_seen', {}).update({str(s): 1 for s in states})
            ctx.flags['exhaustive'] = True
            if d['lo'] == 0:
                ctx.sample({'exhaustive_block': [d['lo'], d['hi']], 'alphabet': 'L0..L7 load object i, U0..U7 unload object i; objects = (private, public) x 4 keys', 'length': L})
        elif d['t'] == 'walk':
            _walk(ctx, d, pgpy, U, sc)
        elif d['t'] == 'subunload':
            _subunload(ctx, d, pgpy, U)
        else:
            _select(ctx, d, pgpy, U, sc)


def _walk(ctx, d, pgpy, U, sc):
    r = ctx.rng('walk', d['w'], d['seed'])
    kr = pgpy.PGPKeyring()
    loaded = []
    scratch = os.environ.get('VERIF_SCRATCH') or '/tmp'
    trace = []
    extra_objs = []
    files = []
    sc = dict(sc)
    try:
        _walk_steps(ctx, d, pgpy, U, sc, r, kr, loaded, scratch, trace, extra_objs, files)
    finally:
        for f_ in files:
            try:
                os.unlink(f_)
            except OSError:
                pass
    ctx.nontrivial({'walk': d['w'], 'seed': d['seed']})
    if len(ctx.samples) < 3:
        ctx.sample({'walk': d['w'], 'trace': trace[:12]})


def _walk_steps(ctx, d, pgpy, U, sc, r, kr, loaded, scratch, trace, extra_objs, files):
    for step in range(d['n']):
        ctx.count('walk_steps')
        op = r.choice(['load_obj', 'load_obj', 'unload', 'unload', 'load_bin', 'load_asc', 'load_file', 'load_list', 'load_multi'])
        before = set(map(id, kr._keys.values())) if hasattr(kr, '_keys') else None
        if op == 'load_obj':
            o = r.choice(U + extra_objs)
            kr.load(o)
            if not any(o is x for x in loaded):
                loaded.append(o)
            trace.append('load %d' % (U + extra_objs).index(o))
        elif op == 'unload' and loaded:
            o = r.choice(loaded)
            kr.unload(o)
            loaded = [x for x in loaded if x is not o]
            trace.append('unload')
        elif op == 'load_multi' and before is not None:
            # one argument holding several transferable keys back to back (a keyring file): two or three keys, and in half of the cases
            # both halves of the same key, in either order
            parts = r.sample(U, r.choice([2, 3]))
            if r.random() < 0.5:
                twin = [x for x in U if x.fingerprint == parts[0].fingerprint and x is not parts[0]][0]
                parts = [p_ for p_ in parts if p_ is not twin]
                parts.insert(r.randrange(1, len(parts) + 1), twin)
            blob = b''.join(bytes(p_) for p_ in parts)
            if r.random() < 0.5:
                fps = kr.load(blob)
            else:
                path = os.path.join(scratch, 'krm%d_%d.gpg' % (os.getpid(), step))
                with open(path, 'wb') as f:
                    f.write(blob)
                try:
                    fps = kr.load(path)
                finally:
                    os.unlink(path)
            ctx.count('multi_key_loads')
            exp = set()
            for p_ in parts:
                exp |= {str(p_.fingerprint)} | {str(sk.fingerprint) for sk in p_.subkeys.values()}
            if not exp <= {str(f) for f in fps}:
                ctx.fail('load-return-value', {'trace': trace[-5:], 'returned': sorted(map(str, fps)), 'expected_superset': sorted(exp)})
            new = [k for k in kr._keys.values() if id(k) not in before and k.is_primary]
            want = sorted((str(p_.fingerprint), p_.is_public) for p_ in parts)
            got = sorted((str(k.fingerprint), k.is_public) for k in new)
            if got != want:
                ctx.fail('key-in-multi-key-blob-not-loaded', {'trace': trace[-5:], 'blob_holds': want, 'keyring_gained': got})
            for p_ in parts:
                if p_.fingerprint not in kr.fingerprints(keyhalf='public' if p_.is_public else 'private'):
                    ctx.fail('half-in-multi-key-blob-not-reported', {'trace': trace[-5:], 'fingerprint': str(p_.fingerprint), 'public': p_.is_public})
            for k in new:
                if not any(k is x for x in loaded):
                    loaded.append(k)
                    extra_objs.append(k)
                    sc[id(k)] = idents(k)
                    for sk in k.subkeys.values():
                        fp = str(sk.fingerprint)
                        sc[id(sk)] = {fp: 'sub-fingerprint', ' '.join(fp[i:i + 4] for i in range(0, 40, 4)): 'sub-fingerprint-spaced', fp[-16:]: 'sub-keyid', fp[-8:]: 'sub-shortid'}
            trace.append('load_multi %s' % ['%d%s' % (U.index(p_) // 2, 'P' if p_.is_public else 'S') for p_ in parts])
        elif op in ('load_bin', 'load_asc', 'load_file', 'load_list') and before is not None:
            src = r.choice(U)
            if op == 'load_bin':
                fps = kr.load(bytes(src))
            elif op == 'load_asc':
                fps = kr.load(str(src))
            elif op == 'load_file':
                # one file per key for the whole walk (written once, never changed): the same unchanged path is loaded again after unloads
                path = os.path.join(scratch, 'kr%d_w%d_k%d.asc' % (os.getpid(), d['w'], U.index(src)))
                if not os.path.exists(path):
                    with open(path, 'w') as f:
                        f.write(str(src))
                    files.append(path)
                else:
                    ctx.count('same_file_loaded_again')
                fps = kr.load(path)
            else:
                s2 = r.choice(U)
                fps = kr.load([bytes(src), s2])
                if not any(s2 is x for x in loaded):
                    loaded.append(s2)
            exp = {str(src.fingerprint)} | {str(sk.fingerprint) for sk in src.subkeys.values()}
            if not exp <= {str(f) for f in fps}:
                ctx.fail('load-return-value', {'trace': trace[-5:], 'returned': sorted(map(str, fps)), 'expected_superset': sorted(exp)})
            new = [k for k in kr._keys.values() if id(k) not in before and k.is_primary]
            for k in new:
                if not any(k is x for x in loaded):
                    loaded.append(k)
                    extra_objs.append(k)
                    sc[id(k)] = idents(k)
                    for sk in k.subkeys.values():
                        fp = str(sk.fingerprint)
                        sc[id(sk)] = {fp: 'sub-fingerprint', ' '.join(fp[i:i + 4] for i in range(0, 40, 4)): 'sub-fingerprint-spaced', fp[-16:]: 'sub-keyid', fp[-8:]: 'sub-shortid'}
            trace.append(op)
        else:
            continue
        # the model universe for "unloaded" identifiers is U (extra objects are copies of members of U)
        check_all(ctx, kr, loaded, {'walk': d['w'], 'step': step, 'trace': trace[-8:]}, sc)


def _subunload(ctx, d, pgpy, U):
    """a subkey unloaded on its own (selected through the keyring, then unloaded) while its primary key stays: it is no longer reported or
    selectable for that half, the primary and the other half are untouched"""
    for i in range(0, 8, 2):
        priv, pub = U[i], U[i + 1]
        for first in ('private', 'public'):
            kr = pgpy.PGPKeyring()
            kr.load(priv, pub)
            objs = {'private': priv, 'public': pub}
            gone = []
            for half in ([first] + [h for h in ('private', 'public') if h != first]):
                o = objs[half]
                sk = list(o.subkeys.values())[0]
                sfp = str(sk.fingerprint)
                kr.unload(sk)
                gone.append(half)
                ctx.count('evaluations')
                ctx.count('steps_checked')
                ctx.count('subkey_only_unloads')
                where = {'key': i // 2, 'unloaded_subkey_of': list(gone)}
                for h in ('private', 'public'):
                    e = {str(objs[h].fingerprint)} | {str(x.fingerprint) for n_, x in enumerate(objs[h].subkeys.values()) if n_ > 0 or h not in gone}
                    g = {str(f) for f in kr.fingerprints(keyhalf=h)}
                    if e != g:
                        ctx.fail('fingerprints-filter-%s' % h, {'where': where, 'missing': sorted(e - g), 'extra': sorted(g - e)})
                e_all = {str(priv.fingerprint)} | ({sfp} if len(gone) < 2 else set()) | {str(x.fingerprint) for x in list(priv.subkeys.values())[1:]}
                g_all = {str(f) for f in kr.fingerprints()}
                if e_all != g_all:
                    ctx.fail('fingerprints-differ-from-loaded-keys', {'where': where, 'missing': sorted(e_all - g_all), 'extra': sorted(g_all - e_all)})
                total = 2 * (1 + len(priv.subkeys))
                if len(kr) != total - len(gone):
                    ctx.fail('len-differs-from-loaded-objects', {'where': where, 'len': len(kr), 'expected': total - len(gone)})
                if (sfp in kr) != (len(gone) < 2):
                    ctx.fail('identifier-of-unloaded-key-still-in-keyring' if len(gone) == 2 else 'identifier-of-loaded-key-not-in-keyring', {'where': where, 'identifier': sfp})
                try:
                    with kr.key(sfp) as got:
                        if len(gone) == 2 or (got.is_public and 'public' in gone) or ((not got.is_public) and 'private' in gone):
                            ctx.fail('identifier-of-unloaded-key-selects-a-key', {'where': where, 'identifier': sfp, 'got_public': got.is_public})
                except KeyError:
                    if len(gone) < 2:
                        ctx.fail('identifier-of-loaded-key-selects-nothing', {'where': where, 'identifier': sfp})
                # the primary key is untouched
                with kr.key(str(priv.fingerprint)) as gp:
                    if str(gp.fingerprint) != str(priv.fingerprint):
                        ctx.fail('identifier-selects-key-not-carrying-it', {'where': where, 'identifier': str(priv.fingerprint)})
    ctx.nontrivial(d)


def _select(ctx, d, pgpy, U, sc):
    """selection by signature and by message yields a key that issued it / can decrypt it"""
    from pgpy.constants import CompressionAlgorithm
    for combo in itertools.combinations(range(8), 3):
        kr = pgpy.PGPKeyring()
        loaded = [U[i] for i in combo]
        kr.load(loaded)
        for i in range(0, 8, 2):
            priv, pub = U[i], U[i + 1]
            sig = priv.sign('select me')
            msg = pgpy.PGPMessage.new('to ' + NAMES[i // 2], compression=CompressionAlgorithm.Uncompressed)
            enc = pub.encrypt(msg)
            smsg = pgpy.PGPMessage.new('signed', compression=CompressionAlgorithm.Uncompressed)
            smsg |= priv.sign(smsg)
            have = any(x is priv or x is pub for x in loaded)
            for what, ident in (('signature', sig), ('encrypted-message', enc), ('signed-message', smsg)):
                ctx.count('selections_checked')
                ctx.count('evaluations')
                try:
                    with kr.key(ident) as got:
                        pass
                except KeyError:
                    if have:
                        ctx.fail('selection-by-%s-finds-nothing' % what, {'loaded': list(combo), 'key': i})
                    continue
                except Exception as e:
                    if have:
                        ctx.fail('selection-by-%s-raised' % what, {'loaded': list(combo), 'key': i, 'err': repr(e)[:200]})
                    continue
                if not have:
                    ctx.fail('selection-by-%s-of-unloaded-key-returns-a-key' % what, {'loaded': list(combo), 'key': i, 'got': str(got.fingerprint)})
                    continue
                ids = {str(got.fingerprint)[-16:]} | set(got.subkeys)
                if got.parent is not None:
                    ids |= {str(got.parent.fingerprint)[-16:]}
                want = {sig.signer} if what != 'encrypted-message' else set(enc.encrypters)
                if not (ids & want) and not any(id(got) == id(x) for x in loaded):
                    ctx.fail('selection-by-%s-returns-unrelated-key' % what, {'loaded': list(combo), 'key': i, 'got': str(got.fingerprint)})
                elif not (ids & want):
                    ctx.fail('selection-by-%s-returns-unrelated-key' % what, {'loaded': list(combo), 'key': i, 'got': str(got.fingerprint)})
        # a signature issued by a signing SUBKEY: selection by the signature object, by its issuer id as text and by the signed message agree, and
        # the component handed out is the one that issued it
        priv, pub = U[6], U[7]
        ssub = [x for x in priv.subkeys.values() if str(x.fingerprint) == str(pool.pgpy_bare('ecdsa_p256_1').fingerprint)][0]
        ssig = ssub.sign('made by the subkey')
        smsg2 = pgpy.PGPMessage.new('signed by the subkey', compression=CompressionAlgorithm.Uncompressed)
        smsg2 |= ssub.sign(smsg2)
        if any(x is priv or x is pub for x in loaded):
            got_ids = {}
            for what, ident in (('signature', ssig), ('issuer-id-text', ssig.signer), ('signed-message', smsg2)):
                ctx.count('selections_checked')
                ctx.count('subkey_issued_selections')
                ctx.count('evaluations')
                try:
                    with kr.key(ident) as got:
                        got_ids[what] = str(got.fingerprint)[-16:]
                except Exception as e:
                    ctx.fail('selection-by-signature-finds-nothing', {'loaded': list(combo), 'by': what, 'issuer': 'signing subkey', 'err': repr(e)[:120]})
            if got_ids and (len(set(got_ids.values())) != 1 or set(got_ids.values()) != {ssig.signer}):
                ctx.fail('selection-by-signature-returns-another-component-than-its-issuer', {'loaded': list(combo), 'selected': got_ids, 'issuer': ssig.signer})
        # messages that name several issuers (two recipients / two signers): a loaded one among them must be found whatever the others are
        for i, j in ((0, 2), (2, 4), (4, 6), (6, 0), (0, 4), (2, 6)):
            sk = bytes(range(32))
            from pgpy.constants import SymmetricKeyAlgorithm
            m0 = pgpy.PGPMessage.new('to two', compression=CompressionAlgorithm.Uncompressed)
            enc2 = U[j + 1].encrypt(U[i + 1].encrypt(m0, sessionkey=sk, cipher=SymmetricKeyAlgorithm.AES256), sessionkey=sk, cipher=SymmetricKeyAlgorithm.AES256)
            s2 = pgpy.PGPMessage.new('signed by two', compression=CompressionAlgorithm.Uncompressed)
            s2 |= U[i].sign(s2)
            s2 |= U[j].sign(s2)
            have = any(x is U[i] or x is U[i + 1] or x is U[j] or x is U[j + 1] for x in loaded)
            for what, ident, want in (('encrypted-message', enc2, set(enc2.encrypters)), ('signed-message', s2, {s_.signer for s_ in s2.signatures})):
                ctx.count('selections_checked')
                ctx.count('multi_issuer_selections')
                ctx.count('evaluations')
                where = {'loaded': list(combo), 'issuers': [i, j], 'several_issuers': True}
                try:
                    with kr.key(ident) as got:
                        pass
                except KeyError:
                    if have:
                        ctx.fail('selection-by-%s-finds-nothing' % what, where)
                    continue
                except Exception as e:
                    if have:
                        ctx.fail('selection-by-%s-raised' % what, dict(where, err=repr(e)[:200]))
                    continue
                if not have:
                    ctx.fail('selection-by-%s-of-unloaded-key-returns-a-key' % what, dict(where, got=str(got.fingerprint)))
                    continue
                ids = {str(got.fingerprint)[-16:]} | set(got.subkeys)
                if got.parent is not None:
                    ids |= {str(got.parent.fingerprint)[-16:]}
                if not (ids & want):
                    ctx.fail('selection-by-%s-returns-unrelated-key' % what, dict(where, got=str(got.fingerprint)))
    ctx.nontrivial(d)


def post_merge(counters, flags):
    counters['abstract_states'] = len(flags.get('states_seen', {}))


def coverage_extra(counters, flags):
    return {'states': len(flags.get('states_seen', {})), 'transitions': counters.get('steps_checked', 0)}
