"""C13 -- every operation draws fresh secret randomness of the right size.

History monitor: os.urandom is interposed by a recording proxy (behaviour preserving); a history of encrypt / protect operations is
run in one process, including repeats of the identical message to the identical recipient and identical protect calls.  After every
operation the reference parser/decryptor extracts session key, prefix, salt, IV and ECDH ephemeral point from the *output*; the
monitor checks size, provenance (the value is among the octet strings the process random source returned during that operation),
pairwise distinctness over the whole history, and that the session key does not occur in the output in the clear.
"""
import os
import warnings

from ..core import hx
from ..ref import wire, keys as RK, sym, pk as RPK
from .. import pool, encwork

W0_COUNTER = 'C13_urandom_outputs'   # thorough tier: the repository's own tests run under this property's always-on monitor
LEVEL = 'exploration'
RULE = ('case = one history (sequence of encrypt/protect operations in one process); one evaluation per operation; a history is non-trivial when it '
        'contains at least one exact repeat (same message, same recipient / same key, same passphrase) and at least two recipient kinds; '
        'distinct = distinct history descriptors; the evidence also counts distinct secret values observed')
ASSUMPTIONS = ['unpredictability of os.urandom / OpenSSL RNG is not decidable by monitoring: freshness, size and provenance are observed',
               'ECDH ephemeral keys and RSA padding come from OpenSSL and are visible only through outputs']
MIN_COUNTERS = {'quick': {'operations': 180, 'session_keys_checked': 120, 'prefixes_checked': 120, 'salts_checked': 40, 'ivs_checked': 15, 'ephemerals_checked': 60, 'urandom_calls_seen': 300, 'reprotect_operations': 5, 'chained_recipient_operations': 10, 'encryptions_with_long_lived_key_object': 60, 'encryptions_of_a_long_lived_message_object': 80, 'encryptions_with_a_caller_supplied_session_key': 100, 'wrong_size_session_keys_offered': 100, 'session_keys_given_as_bytearray': 40},
                'thorough': {'operations': 3000}}
BUDGET = {'quick': (600, 1500), 'thorough': (1800, 3600)}
TECHNIQUE = 'runtime monitoring: history monitor with interposed os.urandom (recording proxy) + reference extraction of secrets from outputs; freshness/size/provenance invariants'


def cases(tier, seed):
    import random
    r = random.Random(seed)
    n_hist, n_ops = (16, 16) if tier == 'quick' else (64, 60)
    cs = []
    ciphers = list(encwork.CIPHERS)
    for h in range(n_hist):
        ops = []
        while len(ops) < n_ops:
            kind = r.choices(['enc_key', 'enc_pass', 'protect', 'enc_multi', 'enc_chain'], [6, 1.2, 1.4, 1, 1.2])[0]
            if kind == 'enc_key':
                op = {'op': 'enc_key', 'rc': r.choice(encwork.RECIPIENTS), 'cipher': r.choice(ciphers), 'msg': r.randrange(3)}
            elif kind == 'enc_pass':
                op = {'op': 'enc_pass', 'pw': r.randrange(2), 'cipher': r.choice(ciphers), 'hash': r.choice(['SHA1', 'SHA256']), 'msg': r.randrange(3)}
            elif kind == 'protect':
                op = {'op': 'protect', 'key': r.choice(['ed25519_3', 'rsa1024_2', 'ecdsa_p256_1']), 'pw': r.randrange(2), 'cipher': r.choice(['AES128', 'AES256', 'CAST5', 'Camellia192']), 'hash': r.choice(['SHA1', 'SHA256'])}
            elif kind == 'enc_chain':
                # recipients added one after the other in any order, several passphrases (also the same one twice), one shared session key
                steps = [r.choice([['pass', r.randrange(2)], ['pass', r.randrange(2)], ['key', r.choice(encwork.RECIPIENTS)]]) for _ in range(r.randint(2, 4))]
                if sum(1 for x in steps if x[0] == 'pass') < 2:
                    steps.append(['pass', steps[0][1] if steps[0][0] == 'pass' else 0])
                    steps.insert(0, ['pass', r.randrange(2)])
                op = {'op': 'enc_chain', 'steps': steps, 'cipher': r.choice(ciphers), 'msg': r.randrange(3)}
            else:
                op = {'op': 'enc_multi', 'rcs': r.sample(encwork.RECIPIENTS, 2), 'pw': r.randrange(2), 'cipher': r.choice(ciphers), 'msg': r.randrange(3)}
            ops.append(op)
            if r.random() < 0.35:
                ops.append(dict(op))      # exact repeat
        # a caller-supplied session key used for several messages (sessionkey= is public API): everything ELSE that has to be fresh still is
        ecdh = [x for x in encwork.RECIPIENTS if not x.startswith('rsa')]
        ops.insert(r.randrange(len(ops)), {'op': 'enc_fixed_sk', 'rcs': [ecdh[h % len(ecdh)], ecdh[(h * 3 + 1) % len(ecdh)], 'rsa1024_1'], 'cipher': ciphers[h % len(ciphers)], 'n': 3, 'msg': h % 3})
        # every history ends with a protect / protect-again pair on one key with the same parameters (change-passphrase flow)
        tail = {'op': 'protect', 'key': 'ed25519_3', 'pw': h % 2, 'cipher': 'AES256', 'hash': 'SHA256'}
        cs.append({'history': h, 'ops': ops[:n_ops + 4] + [tail, dict(tail)]})
    return cs


MSGS = ['the same message every time', 'second message\nwith two lines', '']
PWS = ['history pass', 'ändere passphrase']


class Recorder(object):
    """recording proxy for os.urandom: returns exactly what the real source returns"""

    def __init__(self):
        self.real = os.urandom
        self.window = []
        self.calls = 0

    def __call__(self, n):
        b = self.real(n)
        self.window.append(b)
        self.calls += 1
        return b

    def start(self):
        self.window = []


def run_case(ctx, d):
    import pgpy
    from pgpy.constants import SymmetricKeyAlgorithm, HashAlgorithm, CompressionAlgorithm
    rec = Recorder()
    seen = {'session_key': {}, 'prefix': {}, 'salt': {}, 'iv': {}, 'ephemeral': {}}
    persistent = {}
    pubs = {}
    msgs = {}
    os.urandom = rec
    try:
        with warnings.catch_warnings():
            warnings.simplefilter('ignore')
            for i, op in enumerate(d['ops']):
                ctx.count('operations')
                ctx.count('evaluations')
                rec.start()
                if op['op'] == 'protect':
                    # one persistent key per material name: the first protect locks it, later ones are the change-passphrase flow
                    # (unlock, protect again -- possibly with the very same passphrase, cipher and hash)
                    k, oldpw = persistent.get(op['key'], (None, None))
                    if k is None:
                        k = pool.pgpy_key(op['key'], sub='cv25519_1', fresh=True, uid='protect me')
                    rec.start()
                    if oldpw is None:
                        k.protect(PWS[op['pw']], getattr(SymmetricKeyAlgorithm, op['cipher']), getattr(HashAlgorithm, op['hash']))
                    else:
                        with k.unlock(oldpw):
                            rec.start()
                            k.protect(PWS[op['pw']], getattr(SymmetricKeyAlgorithm, op['cipher']), getattr(HashAlgorithm, op['hash']))
                        ctx.count('reprotect_operations')
                    persistent[op['key']] = (k, PWS[op['pw']])
                    window = list(rec.window)
                    blob = bytes(k)
                    for p in wire.split(blob):
                        if p.tag in (5, 7):
                            pub, sec, info = RK.parse_sec(p.body, None)
                            if info.get('usage') not in (254, 255) or 'iv' not in info:
                                ctx.fail('protected-key-has-no-s2k-protection', {'op': op, 'usage': info.get('usage')})
                                continue
                            bs = sym.blocksize(info['cipher'])
                            check(ctx, seen, 'salt', info['s2k'][2], 8, window, op, i)
                            check(ctx, seen, 'iv', info['iv'], bs, window, op, i)
                            # the protection must open with the passphrase and hide every secret integer
                            _, sec2, _ = RK.parse_sec(p.body, PWS[op['pw']].encode('utf-8'))
                            m = pool.mat(op['key'] if p.tag == 5 else 'cv25519_1')
                            for f, octs in RK.secret_octet_strings(m):
                                if octs in blob:
                                    ctx.fail('secret-integer-in-protected-export', {'op': op, 'field': f})
                    continue
                # two out of three operations encrypt one long-lived plaintext object per text (an application that sends the same message object
                # to several people, or again later), the others a fresh one
                if i % 3 != 1:
                    if op['msg'] not in msgs:
                        msgs[op['msg']] = pgpy.PGPMessage.new(MSGS[op['msg']], compression=CompressionAlgorithm.Uncompressed)
                    msg = msgs[op['msg']]
                    ctx.count('encryptions_of_a_long_lived_message_object')
                else:
                    msg = pgpy.PGPMessage.new(MSGS[op['msg']], compression=CompressionAlgorithm.Uncompressed)
                calg = getattr(SymmetricKeyAlgorithm, op['cipher'])
                cid = encwork.CIPHERS[op['cipher']]
                secrets = []
                if op['op'] == 'enc_fixed_sk':
                    fixed = bytes((7 * j + 1) & 0xFF for j in range(sym.keylen(cid)))
                    for rc in op['rcs']:
                        k, m = encwork.recipient(rc)
                        pubobjs = [k.pubkey, pgpy.PGPKey.from_blob(bytes(k.pubkey))[0]]
                        for n in range(op['n']):
                            mm = msg if n != 1 else pgpy.PGPMessage.new(MSGS[(op['msg'] + 1) % 3], compression=CompressionAlgorithm.Uncompressed)
                            rec.start()
                            # handed over as bytes or as a bytearray (a caller that wants to wipe its own copy afterwards): it is the caller's buffer
                            given = bytearray(fixed) if (n + len(rc)) % 2 else fixed
                            enc = pubobjs[n % 2].encrypt(mm, cipher=calg, sessionkey=given)
                            if bytes(given) != fixed:
                                ctx.fail('caller-supplied-session-key-buffer-changed', {'op': op, 'rc': rc, 'type': type(given).__name__})
                            if isinstance(given, bytearray):
                                ctx.count('session_keys_given_as_bytearray')
                            window = list(rec.window)
                            view = encwork.ref_open(bytes(enc), [('key', m)])
                            res = view['results'][0]
                            ctx.count('encryptions_with_a_caller_supplied_session_key')
                            if res is None or isinstance(res, Exception) or bytes(res[1]) != fixed:
                                ctx.fail('caller-supplied-session-key-not-used', {'op': op, 'rc': rc, 'err': repr(res)[:120]})
                                continue
                            try:
                                pt, prefix = encwork.open_data(view['data'], res[0], fixed)
                            except Exception as ex:
                                ctx.fail('data-not-encrypted-under-the-session-key-the-recipients-get', {'op': op, 'rc': rc, 'given_as': type(given).__name__, 'err': repr(ex)[:100]})
                                continue
                            check(ctx, seen, 'prefix', prefix, sym.blocksize(cid), window, op, i)
                            for e in view['esk']:
                                f = RPK.pkesk_fields(e.body)
                                if e.tag == 1 and f['alg'] == 18:
                                    check(ctx, seen, 'ephemeral', f['point'], None, None, dict(op, rc=rc, n=n), i)
                                elif e.tag == 1:
                                    # RSA: the padded block is random, so the encrypted session key never repeats either
                                    check(ctx, seen, 'ephemeral', e.body[10:], None, None, dict(op, rc=rc, n=n), i)
                    # a caller-supplied key of another size (one that a sibling cipher of the same family would take) is never put to use
                    for wl in sorted({5, 8, 16, 24, 32, 56} - {sym.keylen(cid)}):
                        bad = bytes((3 * j + 5) & 0xFF for j in range(wl))
                        for how in ('key', 'pass'):
                            ctx.count('wrong_size_session_keys_offered')
                            try:
                                if how == 'key':
                                    k_, m_ = encwork.recipient(op['rcs'][-1])
                                    e_ = k_.pubkey.encrypt(msg, cipher=calg, sessionkey=bad)
                                    v_ = encwork.ref_open(bytes(e_), [('key', m_)])
                                else:
                                    e_ = msg.encrypt(PWS[0], cipher=calg, sessionkey=bad)
                                    v_ = encwork.ref_open(bytes(e_), [('pass', PWS[0].encode('utf-8'))])
                            except Exception as ex:
                                ctx.outcome('wrong_size_session_key_refused:' + type(ex).__name__)
                                continue
                            ctx.fail('wrong-size-session_key', {'op': dict(op, how=how), 'len': wl, 'expected': sym.keylen(cid), 'supplied_by': 'caller'})
                    continue
                if op['op'] == 'enc_key':
                    k, m = encwork.recipient(op['rc'])
                    # two out of three encryptions use one long-lived public key object per recipient (as an application holding a
                    # recipient's key does), the others a freshly derived one
                    if i % 3:
                        if op['rc'] not in pubs:
                            pubs[op['rc']] = k.pubkey if len(pubs) % 2 else pgpy.PGPKey.from_blob(bytes(k.pubkey))[0]
                        pubobj = pubs[op['rc']]
                        ctx.count('encryptions_with_long_lived_key_object')
                    else:
                        pubobj = k.pubkey
                    rec.start()
                    enc = pubobj.encrypt(msg, cipher=calg)
                    secrets = [('key', m)]
                elif op['op'] == 'enc_pass':
                    rec.start()
                    enc = msg.encrypt(PWS[op['pw']], cipher=calg, hash=getattr(HashAlgorithm, op['hash']))
                    secrets = [('pass', PWS[op['pw']].encode('utf-8'))]
                elif op['op'] == 'enc_chain':
                    ks = {x[1]: encwork.recipient(x[1]) for x in op['steps'] if x[0] == 'key'}
                    rec.start()
                    sk0 = calg.gen_key()
                    enc = msg
                    for st in op['steps']:
                        if st[0] == 'key':
                            enc = pubs.setdefault(st[1], ks[st[1]][0].pubkey).encrypt(enc, cipher=calg, sessionkey=sk0)
                            secrets.append(('key', ks[st[1]][1]))
                        else:
                            enc = enc.encrypt(PWS[st[1]], cipher=calg, sessionkey=sk0)
                            secrets.append(('pass', PWS[st[1]].encode('utf-8')))
                    ctx.count('chained_recipient_operations')
                else:
                    ks = [encwork.recipient(x) for x in op['rcs']]
                    rec.start()
                    sk0 = calg.gen_key()
                    enc = ks[0][0].pubkey.encrypt(msg, cipher=calg, sessionkey=sk0)
                    enc = ks[1][0].pubkey.encrypt(enc, cipher=calg, sessionkey=sk0)
                    enc = enc.encrypt(PWS[op['pw']], cipher=calg, sessionkey=sk0)
                    secrets = [('key', ks[0][1]), ('key', ks[1][1]), ('pass', PWS[op['pw']].encode('utf-8'))]
                window = list(rec.window)
                blob = bytes(enc)
                view = encwork.ref_open(blob, secrets)
                keys = set()
                for res in view['results']:
                    if res is None or isinstance(res, Exception):
                        ctx.fail('reference-cannot-recover-session-key', {'op': op, 'err': repr(res)[:200]})
                        continue
                    keys.add((res[0], bytes(res[1])))
                if len(keys) != 1:
                    ctx.fail('recipients-disagree-on-session-key', {'op': op, 'n': len(keys)})
                    continue
                alg, sk = keys.pop()
                if alg != cid:
                    ctx.fail('cipher-differs', {'op': op, 'alg': alg})
                check(ctx, seen, 'session_key', sk, sym.keylen(cid), window, op, i)
                if sk in blob:
                    ctx.fail('session-key-in-output-in-clear', {'op': op})
                pt, prefix = encwork.open_data(view['data'], alg, sk)
                check(ctx, seen, 'prefix', prefix, sym.blocksize(cid), window, op, i)
                for e in view['esk']:
                    if e.tag == 3:
                        f = sym.skesk_fields(e.body)
                        if f['spec'] not in (1, 3):
                            ctx.fail('skesk-without-salt', {'op': op, 'spec': f['spec']})
                        check(ctx, seen, 'salt', f['salt'], 8, window, op, i)
                    elif e.tag == 1:
                        f = RPK.pkesk_fields(e.body)
                        if f['alg'] == 18:
                            check(ctx, seen, 'ephemeral', f['point'], None, None, op, i)
                if len(ctx.samples) < 3 and i == 0:
                    ctx.sample({'history': d['history'], 'first_op': op, 'urandom_window_sizes': [len(w) for w in window], 'session_key_len': len(sk)})
    finally:
        os.urandom = rec.real
    ctx.count('urandom_calls_seen', rec.calls)
    ctx.count('distinct_secret_values', sum(len(v) for v in seen.values()))
    reps = sum(1 for a, b in zip(d['ops'], d['ops'][1:]) if a == b)
    kinds = {o.get('rc', o['op']) for o in d['ops']}
    if reps and len(kinds) >= 2:
        ctx.nontrivial({'history': d['history'], 'n': len(d['ops'])})


def check(ctx, seen, kind, value, size, window, op, idx):
    value = bytes(value)
    ctx.count({'session_key': 'session_keys_checked', 'prefix': 'prefixes_checked', 'salt': 'salts_checked', 'iv': 'ivs_checked', 'ephemeral': 'ephemerals_checked'}[kind])
    if size is not None and len(value) != size:
        ctx.fail('wrong-size-%s' % kind, {'op': op, 'len': len(value), 'expected': size})
    if value in seen[kind]:
        ctx.fail('repeated-%s' % kind, {'op': op, 'index': idx, 'first_seen_at': seen[kind][value], 'value': hx(value) if kind != 'session_key' else '<redacted %d octets>' % len(value)})
    seen[kind][value] = idx
    if window is not None and value not in window:
        ctx.fail('%s-not-from-random-source-during-operation' % kind, {'op': op, 'index': idx, 'window_sizes': [len(w) for w in window]})
    if len(value) >= 8 and (len(set(value)) == 1):
        ctx.fail('constant-%s' % kind, {'op': op})
