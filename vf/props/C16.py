"""C16 -- key-usage policy: operations use a component allowed to perform them, or refuse.

Policy-model monitor, exhaustive over capability-flag assignments: primary key x 0..2 subkeys, each with a flag set, x operation
{sign, certify, revoke, encrypt, decrypt, bind, revoker} x enforcement on/off x key form {public, private, locked, unlocked in scope,
mixed lock states}.  The model (a function of the flag sets of the most recent self-signatures, read from public attributes) says which
component must be used or that the operation must refuse; which component *was* used is decided cryptographically: the reference
verifies the signature with the component named by the issuer fields, or decrypts the session-key packet with the named component.
"""
import itertools
import warnings
from datetime import datetime, timezone, timedelta

from ..core import hx
from ..ref import wire, keys as RK, sig as RS, pk as RPK
from .. import pool, sigwork, encwork

LEVEL = 'exploration'
RULE = ('case = block of cells of the matrix (primary flags, subkey flags..., operation, enforcement, form); one evaluation per cell; non-trivial cell = at least '
        'two components or a refusal expected; distinct = distinct cell descriptors (digest)')
ASSUMPTIONS = ['flag sets are read from the most recent self-signature of each component through public attributes', 'when several components qualify any of them may be used (the model only requires that the one used qualifies)']
MIN_COUNTERS = {'quick': {'cells': 3000, 'refusals_expected_and_seen': 350, 'components_confirmed_cryptographically': 1200, 'form_cells': 120, 'forms_after_unlock_attempts': 12, 'aliased_set_cells': 6, 'subkey_object_cells': 60, 'zero_id_component_cells': 6},
                'thorough': {'cells': 12000}}
BUDGET = {'quick': (600, 1500), 'thorough': (1800, 3600)}
TECHNIQUE = 'runtime monitoring: exhaustive policy-matrix enumeration against a policy model; the component actually used is confirmed cryptographically by the reference'

FLAGSETS = [[], ['Certify'], ['Sign'], ['Certify', 'Sign'], ['EncryptCommunications'], ['EncryptStorage'], ['Sign', 'EncryptCommunications'], ['Authentication']]
# component material by role: what it can do cryptographically
PRIM = [('ed25519_0', 'S'), ('rsa1024_0', 'SE')]
SUBS = [('ed25519_1', 'S'), ('cv25519_0', 'E'), ('rsa1024_1', 'SE'), ('ecdsa_p256_0', 'S'), ('ecdh_p256_0', 'E')]
OPS = ['sign', 'certify', 'revoke', 'encrypt', 'decrypt', 'bind', 'revoker']


def ok_flags(caps, fs):
    """flags are only assigned where the algorithm can honour them"""
    if 'Sign' in fs and 'S' not in caps:
        return False
    if ('EncryptCommunications' in fs or 'EncryptStorage' in fs) and 'E' not in caps:
        return False
    return True


def cases(tier, seed):
    cells = []
    for pn, pc in PRIM:
        for pf in FLAGSETS:
            if not ok_flags(pc, pf):
                continue
            combos = [()]
            for s1 in range(len(SUBS)):
                for f1 in FLAGSETS[1:]:
                    if ok_flags(SUBS[s1][1], f1) and 'Certify' not in f1:
                        combos.append(((s1, f1),))
            two = []
            for (s1, f1), (s2, f2) in itertools.product([(s, f) for s in range(len(SUBS)) for f in FLAGSETS[2:] if ok_flags(SUBS[s][1], f) and 'Certify' not in f], repeat=2):
                if s1 != s2:
                    two.append(((s1, f1), (s2, f2)))
            step = 7 if tier == 'quick' else 1
            combos += two[(len(pn) + len(pf)) % step::step]
            for c in combos:
                cells.append({'p': pn, 'pf': pf, 'subs': [[SUBS[s][0], f] for s, f in c]})
    cs = []
    for i in range(0, len(cells), 12):
        cs.append({'t': 'matrix', 'cells': cells[i:i + 12]})
    cs.append({'t': 'forms'})
    cs.append({'t': 'rebind'})
    cs.append({'t': 'users'})
    cs.append({'t': 'noident'})
    cs.append({'t': 'reflag'})
    cs.append({'t': 'aliased'})
    cs.append({'t': 'onsubkey'})
    cs.append({'t': 'zeroid'})
    cs.append({'t': 'unhashed'})
    return cs


def build(cell):
    import pgpy
    from pgpy.constants import KeyFlags
    k = pool.pgpy_bare(cell['p'])
    k.add_uid(pgpy.PGPUID.new('Policy', email='p@example.org'), usage={getattr(KeyFlags, f) for f in cell['pf']})
    for name, fl in cell['subs']:
        k.add_subkey(pool.pgpy_bare(name), usage={getattr(KeyFlags, f) for f in fl})
    return k


def model_flags(k):
    """[(component material name resolver, effective flag names)] read from public attributes, primary first"""
    out = []
    uid = k.userids[0]
    pf = {f.name for f in (uid.selfsig.key_flags if uid.selfsig else set())} | {'Certify'}
    out.append((k, pf))
    for sk in k.subkeys.values():
        sigs = [s for s in sk.__sig__ if s.type == 0x18 and not s.embedded]
        sigs.sort(key=lambda s: s.created)
        fl = {f.name for f in sigs[-1].key_flags} if sigs else set()
        same = [s for s in sigs if s.created == sigs[-1].created] if sigs else []
        alts = [{f.name for f in s.key_flags} for s in same]
        out.append((sk, fl, alts))
    return out


NEED = {'sign': {'Sign'}, 'certify': {'Certify'}, 'revoke': {'Certify'}, 'encrypt': {'EncryptCommunications', 'EncryptStorage'}, 'decrypt': None, 'bind': None, 'revoker': None}


def allowed_components(k, op):
    need = NEED[op]
    comps = model_flags(k)
    if need is None:
        return [comps[0][0]], False
    ok = []
    for c in comps:
        flagsets = [c[1]] + (c[2] if len(c) > 2 else [])
        if any(need & fs for fs in flagsets):
            ok.append(c[0])
    return ok, not ok


def mat_of(obj):
    fp = str(obj.fingerprint)
    for n in pool.allmat():
        if RK.fpr_of(pool.mat(n)).hex().upper() == fp:
            return pool.mat(n)
    raise KeyError(fp)


_MATS = {}


def mat_by_keyid(kid):
    if not _MATS:
        for n in pool.allmat():
            _MATS[RK.keyid_of(pool.mat(n))] = pool.mat(n)
    return _MATS.get(kid)


def do_op(pgpy, k, op, target_uid, msg, enc_for):
    """run the operation; -> ('refused', exc) | ('sig', bytes, refsubj) | ('enc', blob) | ('dec', bytes)"""
    from pgpy.errors import PGPError
    try:
        if op == 'sign':
            s = k.sign('policy document')
            return 'sig', bytes(s), {'doc': b'policy document'}
        if op == 'certify':
            s = k.certify(target_uid)
            prim, uids, subs = sigwork.export_view(target_uid._parent)
            return 'sig', bytes(s), {'primary': prim, 'uid': [b for t, b in uids if t == 13][0]}
        if op == 'revoke':
            s = k.revoke(k)
            prim, _, _ = sigwork.export_view(k)
            return 'sig', bytes(s), {'primary': prim}
        if op == 'revoker':
            s = k.revoker(target_uid._parent)
            prim, _, _ = sigwork.export_view(k)
            return 'sig', bytes(s), {'primary': prim}
        if op == 'bind':
            sk = list(k.subkeys.values())[0]
            s = k.bind(sk, usage={pgpy.constants.KeyFlags.Authentication}, crosssign=False)
            prim, _, subs = sigwork.export_view(k)
            return 'sig', bytes(s), {'primary': prim, 'subkey': subs[0]}
        if op == 'encrypt':
            e = k.encrypt(msg)
            return 'enc', bytes(e), None
        if op == 'decrypt':
            dmsg = k.decrypt(enc_for)
            return 'dec', bytes(dmsg._message._contents), None
    except PGPError as e:
        return 'refused', e, None
    except NotImplementedError as e:
        return 'refused', e, None
    raise ValueError(op)


def check_sig_names_user(ctx, raw, refsubj, allowed, where):
    ps = RS.parse_sig(wire.split(raw)[0].body)
    kid = RS.issuer(ps)
    m = mat_by_keyid(kid)
    fp = RS.issuer_fpr(ps)
    if m is None or (fp is not None and fp != RK.fpr_of(m)):
        ctx.fail('issuer-names-unknown-or-inconsistent-key', dict(where, issuer=hx(kid or b'')))
        return
    ok, why = RS.verify(ps, m, RS.hash_input(ps, **refsubj))
    if not ok:
        ctx.fail('signature-not-made-by-the-component-it-names', dict(where, why=why, issuer=hx(kid)))
        return
    ctx.count('components_confirmed_cryptographically')
    if not any(str(a.fingerprint)[-16:] == kid.hex().upper() for a in allowed):
        ctx.fail('operation-used-component-without-the-capability', dict(where, used=hx(kid), allowed=[str(a.fingerprint)[-16:] for a in allowed]))


def run_case(ctx, d):
    import pgpy
    with warnings.catch_warnings():
        warnings.simplefilter('ignore')
        getattr(__import__(__name__, fromlist=['x']), '_' + d['t'])(ctx, d, pgpy)


def _matrix(ctx, d, pgpy):
    from pgpy.constants import CompressionAlgorithm
    other = sigwork.target_key()
    opub = other.pubkey
    msg = pgpy.PGPMessage.new('policy', compression=CompressionAlgorithm.Uncompressed)
    for cell in d['cells']:
        k = build(cell)
        pub = k.pubkey
        for op in OPS:
            if op == 'bind' and not cell['subs']:
                continue
            for enforce in (True, False):
                ctx.count('cells')
                ctx.count('evaluations')
                where = {'cell': cell, 'op': op, 'enforce': enforce}
                actor = pub if op == 'encrypt' else k
                # the caller's knob is an attribute of the key object the operation is called on; half of the cells also set it on the
                # subkeys (both are things callers do), the other half leave the subkeys at their default
                knob_everywhere = (len(cell['subs']) + OPS.index(op)) % 2 == 0
                actor._require_usage_flags = enforce
                for skx in actor.subkeys.values():
                    skx._require_usage_flags = enforce if knob_everywhere else True
                allowed, must_refuse = allowed_components(actor, op)
                enc_for = None
                if op == 'decrypt':
                    # a message addressed to every encryption-capable component in turn
                    targets = [c for c in [pub] + list(pub.subkeys.values()) if mat_of(c)['alg'] in (1, 18)]
                    if not targets:
                        continue
                    for t in targets:
                        tm = mat_of(t)
                        lit = encwork.literal_packet(b'addressed', b'b', b'', 0)
                        blob = encwork.ref_encrypt(lit, 9, bytes(range(32)), [('key', tm)])
                        res = do_op(pgpy, k, 'decrypt', None, None, pgpy.PGPMessage.from_blob(blob))
                        if res[0] != 'dec' or res[1] != b'addressed':
                            ctx.fail('decryption-does-not-find-addressed-component', dict(where, addressed=str(t.fingerprint)[-16:], result=repr(res[:2])[:120]))
                        else:
                            ctx.count('components_confirmed_cryptographically')
                    ctx.nontrivial(where)
                    continue
                res = do_op(pgpy, actor, op, opub.userids[0], msg, None)
                if must_refuse and enforce:
                    if res[0] != 'refused':
                        ctx.fail('operation-without-capable-component-not-refused', dict(where, result=res[0]))
                    else:
                        ctx.count('refusals_expected_and_seen')
                    ctx.nontrivial(where)
                    continue
                if res[0] == 'refused':
                    if not must_refuse:
                        ctx.fail('operation-refused-although-a-component-has-the-capability', dict(where, err=repr(res[1])[:200], allowed=[str(a.fingerprint)[-16:] for a in allowed]))
                    else:
                        # enforcement is off: the operation goes ahead with the key it was called on, unless that key's algorithm cannot do it at all
                        able = (mat_of(actor)['alg'] in (1, 18)) if op == 'encrypt' else (mat_of(actor)['alg'] != 18)
                        if able:
                            ctx.fail('refused-although-enforcement-is-off', dict(where, knob_on_subkeys_too=knob_everywhere, err=repr(res[1])[:160]))
                        else:
                            ctx.outcome('enforcement_off_but_algorithm_cannot')
                    continue
                if must_refuse and not enforce:
                    allowed = [actor] + list(actor.subkeys.values())    # any component, but it must be named truthfully
                if res[0] == 'sig':
                    check_sig_names_user(ctx, res[1], res[2], allowed, where)
                elif res[0] == 'enc':
                    pk = [p for p in wire.split(res[1]) if p.tag == 1]
                    if len(pk) != 1:
                        ctx.fail('encrypted-message-structure', dict(where, n=len(pk)))
                        continue
                    kid = RPK.pkesk_fields(pk[0].body)['keyid']
                    m = mat_by_keyid(kid)
                    try:
                        RPK.pkesk_decrypt(pk[0].body, m)
                        ctx.count('components_confirmed_cryptographically')
                    except Exception as e:
                        ctx.fail('session-key-not-encrypted-to-the-component-it-names', dict(where, named=hx(kid), err=repr(e)[:120]))
                        continue
                    if not any(str(a.fingerprint)[-16:] == kid.hex().upper() for a in allowed):
                        ctx.fail('operation-used-component-without-the-capability', dict(where, used=hx(kid), allowed=[str(a.fingerprint)[-16:] for a in allowed]))
                if len(cell['subs']) >= 1:
                    ctx.nontrivial(where)
        if len(ctx.samples) < 3:
            ctx.sample({'cell': cell, 'ops': OPS})


def _forms(ctx, d, pgpy):
    """precondition matrix over key forms"""
    from pgpy.constants import SymmetricKeyAlgorithm, HashAlgorithm, CompressionAlgorithm, KeyFlags
    other = sigwork.target_key()
    opub = other.pubkey
    msg = pgpy.PGPMessage.new('forms', compression=CompressionAlgorithm.Uncompressed)
    for pn, subn, subflags in (('ed25519_0', 'ed25519_1', ['Sign']), ('rsa1024_0', 'cv25519_0', ['EncryptCommunications']), ('ecdsa_p256_0', 'rsa1024_1', ['Sign', 'EncryptCommunications']),
                               ('ed25519_2', 'ecdsa_p256_1', ['Sign'])):
        cell = {'p': pn, 'pf': ['Certify'], 'subs': [[subn, subflags]]}      # the primary cannot sign: data signatures must come from the subkey
        for form in ('public', 'private', 'locked', 'unlocked', 'sub-locked-primary-open', 'primary-locked-sub-open',
                     'locked-after-wrong-passphrase', 'locked-after-unlock-that-failed-half-way', 'locked-after-scope-left', 'locked-after-exception-in-scope'):
            k = build(cell)
            sk = list(k.subkeys.values())[0]
            if form.startswith('locked-after'):
                k.protect('pw', SymmetricKeyAlgorithm.AES128, HashAlgorithm.SHA1)
                if form == 'locked-after-unlock-that-failed-half-way':
                    # the subkey gets a passphrase of its own: unlocking the key with the primary's passphrase fails at the subkey
                    with k.unlock('pw'):
                        sk.protect('another pw', SymmetricKeyAlgorithm.AES128, HashAlgorithm.SHA1)
                try:
                    if form == 'locked-after-wrong-passphrase':
                        with k.unlock('not the passphrase'):
                            pass
                    elif form == 'locked-after-unlock-that-failed-half-way':
                        with k.unlock('pw'):
                            pass
                    elif form == 'locked-after-scope-left':
                        with k.unlock('pw'):
                            k.sign('inside the scope')
                    else:
                        with k.unlock('pw'):
                            raise RuntimeError('application error inside the scope')
                except Exception:
                    pass
                ctx.count('forms_after_unlock_attempts')
            elif form in ('locked', 'unlocked'):
                k.protect('pw', SymmetricKeyAlgorithm.AES128, HashAlgorithm.SHA1)
            elif form == 'sub-locked-primary-open':
                sk._key.protect('pw', SymmetricKeyAlgorithm.AES128, HashAlgorithm.SHA1)
            elif form == 'primary-locked-sub-open':
                k._key.protect('pw', SymmetricKeyAlgorithm.AES128, HashAlgorithm.SHA1)
            actor = k.pubkey if form == 'public' else k
            lit = encwork.literal_packet(b'forms', b'b', b'', 0)
            encm = mat_of(sk) if mat_of(sk)['alg'] in (1, 18) else (mat_of(k) if mat_of(k)['alg'] == 1 else None)
            enc_for = pgpy.PGPMessage.from_blob(encwork.ref_encrypt(lit, 9, bytes(range(32)), [('key', encm)])) if encm else None
            cm = k.unlock('pw') if form == 'unlocked' else None
            if cm:
                cm.__enter__()
            try:
                for op in OPS:
                    if op == 'decrypt' and enc_for is None:
                        continue
                    ctx.count('form_cells')
                    ctx.count('evaluations')
                    where = {'primary': pn, 'sub': subn, 'form': form, 'op': op}
                    res = do_op(pgpy, actor, op, opub.userids[0], msg, enc_for)
                    private_op = op != 'encrypt'
                    allowed, no_component = allowed_components(actor, op)
                    uses_sub = bool(allowed) and all(a is not actor for a in allowed) or (op == 'decrypt' and encm is not None and encm['name'] == subn)
                    if form == 'public':
                        expect_refuse = private_op
                    elif form in ('private', 'unlocked'):
                        expect_refuse = not private_op
                    elif form == 'locked':
                        expect_refuse = True
                    elif form == 'sub-locked-primary-open':
                        expect_refuse = (not private_op) or uses_sub
                    else:
                        expect_refuse = True
                    if no_component:
                        expect_refuse = True
                    if expect_refuse and res[0] != 'refused':
                        detail = dict(where, result=res[0])
                        if res[0] == 'sig':
                            ps = RS.parse_sig(wire.split(res[1])[0].body)
                            m = mat_by_keyid(RS.issuer(ps))
                            detail['signature_verifies'] = bool(m and RS.verify(ps, m, RS.hash_input(ps, **res[2]))[0])
                        ctx.fail('operation-not-refused-in-this-key-form', detail)
                    elif not expect_refuse and res[0] == 'refused':
                        ctx.fail('operation-refused-in-a-form-that-allows-it', dict(where, err=repr(res[1])[:200]))
                    elif res[0] == 'refused':
                        ctx.count('refusals_expected_and_seen')
                    elif res[0] == 'sig':
                        check_sig_names_user(ctx, res[1], res[2], [k] + list(k.subkeys.values()), where)
            finally:
                if cm:
                    cm.__exit__(None, None, None)
    ctx.nontrivial(d)


def _rebind(ctx, d, pgpy):
    """the *most recent* binding decides a subkey's capabilities"""
    from pgpy.constants import KeyFlags, CompressionAlgorithm
    t0 = datetime(2021, 1, 1, tzinfo=timezone.utc)
    msg = pgpy.PGPMessage.new('rebind', compression=CompressionAlgorithm.Uncompressed)
    for first, second in ((['Sign'], ['Authentication']), (['Authentication'], ['Sign']), (['EncryptCommunications'], ['Authentication']), (['Authentication'], ['EncryptStorage']),
                          (['Sign'], []), (['EncryptCommunications'], []), (['Sign', 'EncryptCommunications'], []), (['Sign'], None), (['EncryptCommunications', 'Sign'], None),
                          ([], ['Sign']), (None, ['EncryptStorage'])):
        subn = 'rsa1024_1'
        k = pool.pgpy_bare('ed25519_0')
        k.add_uid(pgpy.PGPUID.new('Rebind'), usage={KeyFlags.Certify})
        sk = pool.pgpy_bare(subn)
        # usage None = a binding signature without any key-flags subpacket; [] = an empty flag set
        kw1 = {'usage': {getattr(KeyFlags, f) for f in first}} if first is not None else {}
        kw2 = {'usage': {getattr(KeyFlags, f) for f in second}} if second is not None else {}
        k.add_subkey(sk, created=t0, **kw1)
        sk |= k.bind(sk, created=t0 + timedelta(days=30), **kw2)
        for reimport in (False, True):
            kk = pgpy.PGPKey.from_blob(bytes(k))[0] if reimport else k
            for op in ('sign', 'encrypt'):
                ctx.count('cells')
                ctx.count('evaluations')
                actor = kk.pubkey if op == 'encrypt' else kk
                allowed, must_refuse = allowed_components(actor, op)
                res = do_op(pgpy, actor, op, None, msg, None)
                where = {'first_binding': first, 'most_recent_binding': second, 'op': op, 'reimported': reimport}
                if must_refuse and res[0] != 'refused':
                    ctx.fail('capability-taken-from-superseded-binding', dict(where, result=res[0]))
                elif not must_refuse and res[0] == 'refused':
                    ctx.fail('capability-of-most-recent-binding-ignored', dict(where, err=repr(res[1])[:160]))
                elif res[0] == 'refused':
                    ctx.count('refusals_expected_and_seen')
                else:
                    ctx.count('components_confirmed_cryptographically', 0)
    ctx.nontrivial(d)


def _users(ctx, d, pgpy):
    """identities with different flags: user= selects whose self-signature counts"""
    from pgpy.constants import KeyFlags
    k = pool.pgpy_bare('ed25519_0')
    t0 = datetime(2021, 1, 1, tzinfo=timezone.utc)
    k.add_uid(pgpy.PGPUID.new('Certify Only', email='c@example.org'), usage={KeyFlags.Certify}, created=t0, primary=True)
    k.add_uid(pgpy.PGPUID.new('Signer Too', email='s@example.org'), usage={KeyFlags.Certify, KeyFlags.Sign}, created=t0 + timedelta(days=1))
    # identities whose names / addresses / comments contain one another: only an exact match of a whole field names an identity
    k.add_uid(pgpy.PGPUID.new('Anne', comment='not Ann, not ann@x.example', email='joann@x.example'), usage={KeyFlags.Certify, KeyFlags.Sign}, created=t0 + timedelta(days=2))
    k.add_uid(pgpy.PGPUID.new('Ann', comment='not Anne', email='ann@x.example'), usage={KeyFlags.Certify}, created=t0 + timedelta(days=3))
    k.add_uid(pgpy.PGPUID.new('Annette Anne Ann', comment='Signer Too (no)', email='s@example.org.invalid'), usage={KeyFlags.Certify}, created=t0 + timedelta(days=4))
    for user, can in (('Certify Only', False), ('Signer Too', True), ('s@example.org', True), ('c@example.org', False),
                      ('Ann', False), ('Anne', True), ('ann@x.example', False), ('joann@x.example', True), ('not Anne', False), ('Annette Anne Ann', False)):
        ctx.count('cells')
        ctx.count('evaluations')
        try:
            s = k.sign('doc', user=user)
            if not can:
                ctx.fail('identity-without-capability-used', {'user': user})
            else:
                ps = RS.parse_sig(wire.split(bytes(s))[0].body)
                su = RS.sp_get(ps, 28)
                if not su or user not in su[0].decode('utf-8'):
                    ctx.fail('signers-user-id-missing', {'user': user})
        except pgpy.errors.PGPError:
            if can:
                ctx.fail('identity-with-capability-refused', {'user': user})
            else:
                ctx.count('refusals_expected_and_seen')
    ctx.nontrivial(d)


def _unhashed(ctx, d, pgpy):
    """capabilities come from the signed (hashed) key-flags subpacket only: the same keys with a grant-everything key-flags subpacket (and a
    never-expires / primary / preferences set) appended to the unhashed area of every self-signature and binding behave exactly as before"""
    from pgpy.constants import CompressionAlgorithm
    from .. import unhashed
    other = sigwork.target_key()
    opub = other.pubkey
    msg = pgpy.PGPMessage.new('policy', compression=CompressionAlgorithm.Uncompressed)
    cells = [{'p': 'ed25519_0', 'pf': ['Certify'], 'subs': [['ed25519_1', ['Sign']], ['cv25519_0', ['EncryptCommunications']]]},
             {'p': 'ed25519_0', 'pf': ['Certify'], 'subs': [['cv25519_0', ['EncryptStorage']]]},
             {'p': 'rsa1024_0', 'pf': ['Certify'], 'subs': [['rsa1024_1', ['Sign']]]},
             {'p': 'rsa1024_0', 'pf': ['Certify', 'Sign'], 'subs': [['rsa1024_1', ['Authentication']]]},
             {'p': 'ecdsa_p256_0', 'pf': ['Certify', 'EncryptCommunications'], 'subs': [['ecdsa_p256_1', ['Sign']], ['ecdh_p256_0', []]]},
             {'p': 'ed25519_2', 'pf': ['Certify'], 'subs': []},
             {'p': 'rsa2048_0', 'pf': ['Certify', 'Sign'], 'subs': []}]
    for cell in cells:
        k = build(cell)
        for extra_name, extra in (('all-flags', unhashed.GRANT_ALL_FLAGS), ('everything', unhashed.ALL), ('flags-twice', unhashed.sp(27, b'\x0c') + unhashed.sp(27, b'\x02'))):
            blob, n = unhashed.inject(bytes(k), {0x10, 0x11, 0x12, 0x13, 0x18, 0x1F}, extra)
            try:
                k2 = pgpy.PGPKey.from_blob(blob)[0]
            except Exception as e:
                ctx.observe('key_with_unhashed_additions_not_loadable:' + type(e).__name__)
                continue
            for op in ('sign', 'certify', 'encrypt'):
                ctx.count('cells')
                ctx.count('evaluations')
                ctx.count('unhashed_addition_cells')
                model_actor = k.pubkey if op == 'encrypt' else k
                actor = k2.pubkey if op == 'encrypt' else k2
                allowed, must_refuse = allowed_components(model_actor, op)
                allowed_fps = {str(a.fingerprint) for a in allowed}
                if op == 'encrypt':
                    allowed_fps = {f for f in allowed_fps if mat_of_fp(f)['alg'] in (1, 18)}
                    must_refuse = not allowed_fps
                res = do_op(pgpy, actor, op, opub.userids[0], msg, None)
                where = {'cell': cell, 'op': op, 'unhashed_addition': extra_name, 'signatures_touched': n}
                if must_refuse and res[0] != 'refused':
                    ctx.fail('capability-granted-by-unsigned-subpacket', dict(where, result=res[0]))
                elif not must_refuse and res[0] == 'refused':
                    ctx.fail('operation-refused-although-a-component-has-the-capability', dict(where, err=repr(res[1])[:160]))
                elif res[0] == 'refused':
                    ctx.count('refusals_expected_and_seen')
                else:
                    if res[0] == 'sig':
                        kid = RS.issuer(RS.parse_sig(wire.split(res[1])[0].body))
                    else:
                        pk_ = [p_ for p_ in wire.split(res[1]) if p_.tag == 1]
                        kid = RPK.pkesk_fields(pk_[0].body)['keyid'] if pk_ else b''
                    if not any(f[-16:] == kid.hex().upper() for f in allowed_fps):
                        ctx.fail('capability-granted-by-unsigned-subpacket', dict(where, used=hx(kid), allowed=sorted(f[-16:] for f in allowed_fps)))
    ctx.nontrivial(d)


def mat_of_fp(fp):
    for n in pool.allmat():
        if RK.fpr_of(pool.mat(n)).hex().upper() == fp:
            return pool.mat(n)
    raise KeyError(fp)


def _reflag(ctx, d, pgpy):
    """one key object whose identity is re-certified with changing flags (and whose subkey is re-bound): every operation follows the flags in force *now*"""
    from pgpy.constants import KeyFlags, SignatureType, CompressionAlgorithm
    msg = pgpy.PGPMessage.new('reflag', compression=CompressionAlgorithm.Uncompressed)
    for pn in ('ed25519_0', 'rsa1024_0'):
        k = pool.pgpy_bare(pn)
        t0 = datetime(2022, 1, 1, tzinfo=timezone.utc)
        k.add_uid(pgpy.PGPUID.new('Reflag'), usage={KeyFlags.Certify, KeyFlags.Sign}, created=t0)
        sk = pool.pgpy_bare('rsa1024_1')
        k.add_subkey(sk, usage={KeyFlags.Authentication}, created=t0)
        seq = [(['Certify'], ['Authentication']), (['Certify', 'Sign'], ['Authentication']), (['Certify'], ['Sign']), (['Certify'], ['EncryptCommunications']), (['Certify'], ['Authentication']),
               (['Sign'], ['EncryptStorage']), (['Certify'], []),
               # the primary's own encryption capability granted and withdrawn by re-certifying the identity (matters for the RSA primary)
               (['Certify', 'EncryptCommunications'], ['Authentication']), (['Certify'], ['Authentication']), (['Certify', 'EncryptStorage'], []), (['Certify', 'Sign'], [])]
        held_pubs = []
        for i, (pf, sf) in enumerate(seq):
            u = k.userids[0]
            u |= k.certify(u, SignatureType.Positive_Cert, usage={getattr(KeyFlags, f) for f in pf}, created=t0 + timedelta(days=i + 1))
            sk |= k.bind(sk, usage={getattr(KeyFlags, f) for f in sf}, created=t0 + timedelta(days=i + 1))
            for rep in range(2):
                for op in ('sign', 'encrypt'):
                    ctx.count('cells')
                    ctx.count('evaluations')
                    actor = k.pubkey if op == 'encrypt' else k
                    if op == 'encrypt':
                        # the caller keeps every public half it was ever handed (to publish it, say): the one handed out NOW follows the flags in force now
                        held_pubs.append(actor)
                        ctx.count('public_halves_kept_by_the_caller')
                    allowed, must_refuse = allowed_components(actor, op)
                    if op == 'encrypt' and pn == 'ed25519_0':
                        allowed = [a for a in allowed if a is not actor]
                        must_refuse = not allowed
                    if op == 'encrypt':
                        model_refuse = not (set(sf) & {'EncryptCommunications', 'EncryptStorage'}) and not (pn == 'rsa1024_0' and set(pf) & {'EncryptCommunications', 'EncryptStorage'})
                        if model_refuse != must_refuse:
                            ctx.fail('public-half-handed-out-does-not-carry-the-flags-in-force', {'primary': pn, 'step': i, 'subkey_flags': sf, 'public_halves_alive': len(held_pubs)})
                            must_refuse = model_refuse
                    res = do_op(pgpy, actor, op, None, msg, None)
                    where = {'primary': pn, 'step': i, 'primary_flags': pf, 'subkey_flags': sf, 'op': op, 'repeat': rep}
                    if must_refuse and res[0] != 'refused':
                        ctx.fail('capability-survives-its-withdrawal', dict(where, result=res[0]))
                    elif not must_refuse and res[0] == 'refused':
                        ctx.fail('capability-granted-by-current-self-signature-ignored', dict(where, err=repr(res[1])[:160]))
                    elif res[0] == 'refused':
                        ctx.count('refusals_expected_and_seen')
                    elif res[0] == 'sig':
                        check_sig_names_user(ctx, res[1], res[2], allowed, where)
    ctx.nontrivial(d)


def _aliased(ctx, d, pgpy):
    """the caller builds one usage set and keeps using (and changing) that very object for the next component: the flags a component was given are
    those at the time it was given them.  Checked on the live key, its public twin and after export/import: who carries out sign / encrypt."""
    from pgpy.constants import KeyFlags, CompressionAlgorithm
    msg = pgpy.PGPMessage.new('aliased', compression=CompressionAlgorithm.Uncompressed)
    for variant in ('grow', 'refill', 'identity'):
        k = pool.pgpy_bare('ed25519_0')
        usage = {KeyFlags.Certify}
        k.add_uid(pgpy.PGPUID.new('Aliased Sets'), usage=usage, hashes=[pgpy.constants.HashAlgorithm.SHA256])
        a, b = pool.pgpy_bare('ed25519_1'), pool.pgpy_bare('ed25519_2')
        e = pool.pgpy_bare('cv25519_1')
        if variant == 'grow':
            usage = {KeyFlags.Authentication}
            k.add_subkey(a, usage=usage)
            usage.add(KeyFlags.Sign)
            k.add_subkey(b, usage=usage)
            expect_signer, expect_flags_a = b, {KeyFlags.Authentication}
        elif variant == 'refill':
            usage = {KeyFlags.Sign}
            k.add_subkey(a, usage=usage)
            usage.clear()
            usage.update({KeyFlags.EncryptCommunications, KeyFlags.EncryptStorage})
            k.add_subkey(e, usage=usage)
            usage.clear()
            expect_signer, expect_flags_a = a, {KeyFlags.Sign}
        else:
            # the set given to the identity is emptied afterwards: the primary keeps Certify (and may still bind)
            usage.clear()
            k.add_subkey(a, usage={KeyFlags.Sign})
            expect_signer, expect_flags_a = a, {KeyFlags.Sign}
        for form, kk in (('live', k), ('reimported', pgpy.PGPKey.from_blob(bytes(k))[0])):
            ctx.count('cells')
            ctx.count('aliased_set_cells')
            ctx.count('evaluations')
            where = {'variant': variant, 'form': form}
            suba = kk.subkeys[a.fingerprint.keyid]
            got = set(suba._get_key_flags()) if hasattr(suba, '_get_key_flags') else None
            bsig = next(iter(suba.self_signatures), None)
            if bsig is None or set(bsig.key_flags) != expect_flags_a:
                ctx.fail('flags-of-a-component-follow-a-set-changed-after-it-was-given', dict(where, flags=sorted(str(x) for x in (bsig.key_flags if bsig else []))))
            try:
                s_ = kk.sign('aliased')
                if s_.signer != expect_signer.fingerprint.keyid:
                    ctx.fail('operation-carried-out-by-component-without-the-capability', dict(where, signer=s_.signer, expected=str(expect_signer.fingerprint.keyid)))
                elif not kk.pubkey.verify('aliased', s_):
                    ctx.fail('signature-of-chosen-component-does-not-verify', where)
                else:
                    ctx.count('components_confirmed_cryptographically')
            except pgpy.errors.PGPError as ex:
                ctx.fail('capable-component-refused', dict(where, err=str(ex)[:120]))
            if variant == 'refill':
                try:
                    enc = kk.pubkey.encrypt(msg)
                    kid = [p_ for p_ in __import__('vf.ref.wire', fromlist=['x']).split(bytes(enc)) if p_.tag == 1][0].body[1:9]
                    if kid.hex().upper() != str(e.fingerprint.keyid):
                        ctx.fail('operation-carried-out-by-component-without-the-capability', dict(where, op='encrypt', recipient=kid.hex()))
                except pgpy.errors.PGPError as ex:
                    ctx.fail('capable-component-refused', dict(where, op='encrypt', err=str(ex)[:120]))
            if variant == 'identity':
                if KeyFlags.Certify not in set(kk.userids[0].selfsig.key_flags):
                    ctx.fail('flags-of-a-component-follow-a-set-changed-after-it-was-given', dict(where, component='identity'))
            # the self-signatures still verify (a flag subpacket that changed after signing breaks them)
            sv = kk.pubkey.verify(kk.pubkey) if form == 'live' else kk.verify(kk)
            if not sv:
                ctx.fail('self-signatures-fail', dict(where, bad=len(list(sv.bad_signatures))))
    ctx.nontrivial(d)


def _onsubkey(ctx, d, pgpy):
    """operations called on a SUBKEY object itself (not on the key that owns it): the subkey's own binding flags decide - a primary key's implicit
    ability to certify does not extend to its subkeys"""
    from pgpy.constants import KeyFlags, CompressionAlgorithm
    other = sigwork.target_key()
    opub = other.pubkey
    msg = pgpy.PGPMessage.new('on the subkey', compression=CompressionAlgorithm.Uncompressed)
    FS = [('Sign',), ('Authentication',), ('Sign', 'Certify'), ('Certify',), ()]
    for form in ('live', 'reimported'):
        k = pool.pgpy_key('ed25519_0', uid='Owner Of Subkeys', fresh=True)
        names = ['ed25519_1', 'ecdsa_p256_1', 'rsa1024_1', 'ed25519_2', 'ed25519_3']
        for n_, fl in zip(names, FS):
            k.add_subkey(pool.pgpy_bare(n_), usage={getattr(KeyFlags, f) for f in fl})
        k.add_subkey(pool.pgpy_bare('cv25519_1'), usage={KeyFlags.EncryptCommunications})
        if form == 'reimported':
            k = pgpy.PGPKey.from_blob(bytes(k))[0]
        kp = k.pubkey
        for n_, fl in list(zip(names, FS)) + [('cv25519_1', ('EncryptCommunications',))]:
            sk = k.subkeys[pool.pgpy_bare(n_).fingerprint.keyid]
            ops = [('certify-uid', 'Certify', lambda: sk.certify(opub.userids[0])), ('certify-key', 'Certify', lambda: sk.certify(opub)),
                   ('certify-own-uid', 'Certify', lambda: sk.certify(kp.userids[0])), ('revoke-key', 'Certify', lambda: sk.revoke(kp)),
                   ('revoke-uid', 'Certify', lambda: sk.revoke(kp.userids[0]))]
            if n_ != 'cv25519_1':
                ops.append(('sign', 'Sign', lambda: sk.sign('on the subkey')))
            for opname, need, f in ops:
                ctx.count('cells')
                ctx.count('subkey_object_cells')
                ctx.count('evaluations')
                where = {'form': form, 'subkey': n_, 'flags': list(fl), 'op': opname}
                allowed = need in fl
                try:
                    r_ = f()
                except pgpy.errors.PGPError as e:
                    if allowed:
                        ctx.fail('capable-component-refused', dict(where, err=str(e)[:120]))
                    else:
                        ctx.count('refusals_expected_and_seen')
                    continue
                except Exception as e:
                    ctx.outcome('onsubkey_error:%s:%s' % (opname, type(e).__name__))
                    if not allowed:
                        ctx.count('refusals_expected_and_seen')
                    continue
                if not allowed:
                    ctx.fail('operation-carried-out-by-component-without-the-capability', dict(where, signer=getattr(r_, 'signer', None)))
    ctx.nontrivial(d)


def _zeroid(ctx, d, pgpy):
    """components whose key id begins with a zero octet (one key in 256): the session-key packet names exactly the component used, decryption finds
    it, signatures name it - live, through the public twin, and after export/import of message and key"""
    from pgpy.constants import KeyFlags, CompressionAlgorithm
    from ..ref import wire as W
    msg = pgpy.PGPMessage.new('zero-leading key id', compression=CompressionAlgorithm.Uncompressed)
    for enc_name, sig_name in (('cv25519_1', 'ed25519_1'), ('rsa1024_1', 'ecdsa_p256_1'), ('ecdh_p256_0', 'ed25519_2')):
        te, ts = pool.created_with_zero(enc_name, 'keyid'), pool.created_with_zero(sig_name, 'keyid')
        k = pool.pgpy_key('ed25519_0', uid='Zero Ids', usage={KeyFlags.Certify}, fresh=True)
        k.add_subkey(pool.pgpy_bare(sig_name, created=ts), usage={KeyFlags.Sign})
        k.add_subkey(pool.pgpy_bare(enc_name, created=te), usage={KeyFlags.EncryptCommunications, KeyFlags.EncryptStorage})
        eid = RK.keyid_of(pool.mat(enc_name, te)).hex().upper()
        sid = RK.keyid_of(pool.mat(sig_name, ts)).hex().upper()
        if not (eid.startswith('00') and sid.startswith('00')):
            ctx.fail('harness-zero-id-not-built', {'enc': eid, 'sig': sid})
            continue
        for form, kk in (('live', k), ('reimported', pgpy.PGPKey.from_blob(bytes(k))[0])):
            ctx.count('cells')
            ctx.count('zero_id_component_cells')
            ctx.count('evaluations')
            where = {'form': form, 'enc': enc_name, 'sig': sig_name}
            enc = kk.pubkey.encrypt(msg)
            wire_id = [p_ for p_ in W.split(bytes(enc)) if p_.tag == 1][0].body[1:9].hex().upper()
            for mform, em in (('built', enc), ('reloaded', pgpy.PGPMessage.from_blob(bytes(enc))), ('reloaded-armor', pgpy.PGPMessage.from_blob(str(enc)))):
                if wire_id != eid or set(em.encrypters) != {eid}:
                    ctx.fail('session-key-packet-does-not-name-the-component-used', dict(where, message=mform, on_the_wire=wire_id, reported=sorted(em.encrypters), used=eid))
                try:
                    dec = kk.decrypt(em)
                    if dec.message != 'zero-leading key id':
                        ctx.fail('decrypts-to-different-plaintext', dict(where, message=mform))
                    else:
                        ctx.count('components_confirmed_cryptographically')
                except Exception as e:
                    ctx.fail('capable-component-refused', dict(where, message=mform, op='decrypt', err=repr(e)[:120]))
            try:
                s_ = kk.sign('zero-leading key id')
                if s_.signer != sid:
                    ctx.fail('operation-carried-out-by-component-without-the-capability', dict(where, signer=s_.signer, expected=sid))
                elif not kk.pubkey.verify('zero-leading key id', pgpy.PGPSignature.from_blob(bytes(s_))):
                    ctx.fail('signature-of-chosen-component-does-not-verify', where)
            except pgpy.errors.PGPError as e:
                ctx.fail('capable-component-refused', dict(where, op='sign', err=str(e)[:120]))
    ctx.nontrivial(d)


def _noident(ctx, d, pgpy):
    from pgpy.constants import CompressionAlgorithm, KeyFlags
    other = sigwork.target_key()
    msg = pgpy.PGPMessage.new('x', compression=CompressionAlgorithm.Uncompressed)
    for name in ('ed25519_0', 'rsa1024_0', 'ecdsa_p256_0'):
        k = pool.pgpy_bare(name)
        for opname, f in (('sign', lambda: k.sign('x')), ('revoke', lambda: k.revoke(k)), ('certify-other', None), ('revoker', lambda: k.revoker(other.pubkey)),
                          ('decrypt', lambda: k.decrypt(other.pubkey.encrypt(msg))), ('encrypt', lambda: k.pubkey.encrypt(msg))):
            if f is None:
                continue
            ctx.count('cells')
            ctx.count('evaluations')
            try:
                f()
                ctx.fail('key-without-identity-performed-operation', {'key': name, 'op': opname})
            except pgpy.errors.PGPError:
                ctx.count('refusals_expected_and_seen')
            except Exception as e:
                ctx.outcome('noident_error:' + type(e).__name__)
                ctx.count('refusals_expected_and_seen')
        # ... but its first self-certification is allowed
        try:
            k.add_uid(pgpy.PGPUID.new('First'), usage={KeyFlags.Sign})
        except Exception as e:
            ctx.fail('first-self-certification-refused', {'key': name, 'err': repr(e)[:120]})
    # the same for a key that HAS capable subkeys but no identity (its only identity removed, or a transferable key that arrived without one):
    # operations that would be handed to a subkey are refused as well
    from pgpy.constants import HashAlgorithm
    for pname, psub, pflags in (('ed25519_0', 'ed25519_1', {KeyFlags.Certify}), ('rsa1024_0', 'ecdsa_p256_1', {KeyFlags.Certify}), ('ecdsa_p256_0', 'ed25519_2', {KeyFlags.Certify, KeyFlags.Sign})):
        for how in ('del_uid', 'loaded-without-identity'):
            k = pool.pgpy_key(pname, uid='Only Identity', usage=pflags, sub=psub, sub_usage={KeyFlags.Sign}, fresh=True)
            k.add_subkey(pool.pgpy_bare('cv25519_2'), usage={KeyFlags.EncryptCommunications, KeyFlags.EncryptStorage})
            enc_to_sub = k.pubkey.encrypt(msg)
            if how == 'del_uid':
                k.del_uid('Only Identity')
            else:
                from ..ref import wire as W
                out, skipping = b'', False
                for p_ in W.split(bytes(k)):
                    if p_.tag == 13:
                        skipping = True
                        continue
                    if p_.tag in (5, 7):
                        skipping = False
                    if skipping and p_.tag == 2:
                        continue
                    out += W.new_hdr(p_.tag, len(p_.body)) + p_.body
                k = pgpy.PGPKey.from_blob(out)[0]
            if len(k.userids) != 0 or len(k.subkeys) != 2:
                ctx.fail('harness-identityless-key-not-built', {'key': pname, 'how': how})
                continue
            ctx.count('identityless_keys_with_subkeys')
            for opname, f in (('sign', lambda: k.sign('x')), ('sign-hash', lambda: k.sign('x', hash=HashAlgorithm.SHA512)), ('timestamp', lambda: k.sign(None)),
                              ('sign-message', lambda: k.sign(msg)), ('revoke', lambda: k.revoke(k)), ('revoke-subkey', lambda: k.revoke(list(k.subkeys.values())[0])),
                              ('revoker', lambda: k.revoker(other.pubkey)), ('certify-other', lambda: k.certify(other.pubkey.userids[0])),
                              ('bind', lambda: k.bind(pool.pgpy_bare('ed25519_3'), usage={KeyFlags.Sign})),
                              ('decrypt', lambda: k.decrypt(enc_to_sub)), ('encrypt', lambda: k.pubkey.encrypt(msg)), ('verify', None)):
                if f is None:
                    continue
                ctx.count('cells')
                ctx.count('evaluations')
                try:
                    f()
                    ctx.fail('key-without-identity-performed-operation', {'key': pname, 'sub': psub, 'how': how, 'op': opname})
                except pgpy.errors.PGPError:
                    ctx.count('refusals_expected_and_seen')
                except Exception as e:
                    ctx.outcome('noident_error:%s:%s' % (opname, type(e).__name__))
                    ctx.count('refusals_expected_and_seen')
    ctx.nontrivial(d)
