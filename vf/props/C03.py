"""C03 -- encryption round-trips and conforms to RFC 4880 / RFC 6637 in both directions.

A: messages encrypted by PGPy are decrypted (1) by PGPy with each single recipient secret -- content, literal metadata, compression and
signatures must be identical -- and (2) by the independent decryptor (own CFB over ECB, own S2K, own RFC 3394 unwrap, own KDF), which must
recover exactly bytes(original message), the chosen cipher and a session key of the cipher's size, addressed to the recipient's key id.
B: well-formed messages built by the independent encryptor (PKESK/SKESK, SEIPD and legacy SED, old/new/partial framing, reference
compression) must decrypt under PGPy to the original.  C: GnuPG both ways on a sample.
"""
import warnings

from ..core import hx
from ..ref import wire, keys as RK, sym, pk as RPK, grammar
from .. import pool, encwork, sigwork, gpgx

LEVEL = 'exploration'
RULE = ('case = (direction, body class, literal metadata, compression, cipher, recipient list incl. order, session key source, signed?, transport); '
        'one evaluation per decryption attempt compared with the original; non-trivial = more than one recipient, or a cipher/compression other '
        'than the default, or a body other than short ASCII; distinct = distinct case descriptors')
ASSUMPTIONS = ['cryptography/OpenSSL RSA, ECDH and raw block ciphers', 'vf.ref sym/pk (self-consistent, and cross-checked against gpg in this check when gpg is present)']
MIN_COUNTERS = {'quick': {'short_rsa_session_key_integers': 6, 'pgpy_roundtrips': 100, 'ref_opened_pgpy_output': 100, 'pgpy_opened_ref_output': 100, 'ciphers_seen': 9},
                'thorough': {'pgpy_roundtrips': 1500, 'ref_opened_pgpy_output': 1500, 'pgpy_opened_ref_output': 800}}
BUDGET = {'quick': (600, 1500), 'thorough': (1800, 3600)}
TECHNIQUE = 'runtime monitoring: differential reference-model monitor (independent RFC 4880/6637 decryptor and encryptor) + GnuPG second oracle'

PASSES = ['correct horse', 'pässwörd 日本', 'x', 'a' * 300, ' Cafe\u0301 \u212b \ufb01\t\n']


def cases(tier, seed):
    import random
    r = random.Random(seed)
    cs = []
    ciphers = list(encwork.CIPHERS)
    bodies = ['empty', 'one', 'text', 'ascii', 'binary', 'zeros', '64k', 'far']
    rc = encwork.RECIPIENTS
    # A1: cipher x recipient kind (single recipient), rotating body/compression
    i = 0
    for c in ciphers:
        for rn in rc:
            cs.append({'d': 'A', 'msg': {'body': bodies[i % len(bodies)], 'comp': encwork.COMPRESSIONS[i % 4]}, 'cipher': c,
                       'rcpts': [['key', rn, True]], 'sk': 'gen', 'signed': i % 3 == 0, 'armor': i % 2 == 0})
            i += 1
    # A2: passphrases with every S2K hash x some ciphers
    for h in encwork.S2K_HASHES:
        for c in (ciphers if tier == 'thorough' else [ciphers[i % len(ciphers)], 'AES256']):
            cs.append({'d': 'A', 'msg': {'body': bodies[i % len(bodies)], 'comp': encwork.COMPRESSIONS[i % 4]}, 'cipher': c,
                       'rcpts': [['pass', i % len(PASSES), h]], 'sk': 'gen', 'signed': False, 'armor': i % 2 == 1})
            i += 1
    # A3: recipient sets of size 2..4 mixing keys and passphrases, both orders
    for n in range(24 if tier == 'quick' else 1500):
        k = r.randint(2, 4)
        rs = []
        for _ in range(k):
            if r.random() < 0.65:
                rs.append(['key', r.choice(rc), r.random() < 0.8])
            else:
                rs.append(['pass', r.randrange(len(PASSES)), r.choice(['SHA1', 'SHA256', 'SHA512'])])
        if len({tuple(x[:2]) for x in rs}) != len(rs):
            continue
        cs.append({'d': 'A', 'msg': {'body': r.choice(bodies), 'comp': r.choice(encwork.COMPRESSIONS)}, 'cipher': r.choice(ciphers),
                   'rcpts': rs, 'sk': r.choice(['gen', 'supplied']), 'signed': r.random() < 0.4, 'armor': r.random() < 0.5})
    # A4: literal metadata
    for fn, fmt, sens in (('plain.txt', None, False), ('ünï.txt', None, False), ('a' * 200 + '.bin', 'b', False), (None, 't', False), (None, 'u', False), (None, None, True),
                          ('data.bin', 'b', False)):
        cs.append({'d': 'A', 'msg': {'body': 'ascii' if fmt in ('t',) else ('text' if fmt == 'u' else 'binary'), 'comp': 'ZLIB', 'filename': fn, 'format': fmt,
                                     'mtime': 86400 * 365 * 20 + 7, 'sensitive': sens},
                   'cipher': 'AES128', 'rcpts': [['key', 'cv25519_0', True]], 'sk': 'gen', 'signed': False, 'armor': False})
    # A4b: a body that compresses better than 1000:1, under every compression algorithm
    for comp in encwork.COMPRESSIONS:
        cs.append({'d': 'A', 'msg': {'body': 'zeros1m', 'comp': comp}, 'cipher': 'AES128', 'rcpts': [['key', 'cv25519_0', True]], 'sk': 'gen', 'signed': False, 'armor': False})
    # A5: supplied session keys incl. wrong sizes; refused ciphers
    for c, n in (('AES256', 32), ('AES256', 16), ('AES256', 24), ('AES128', 16), ('AES128', 32), ('TripleDES', 24), ('CAST5', 16)):
        cs.append({'d': 'A', 'msg': {'body': 'ascii', 'comp': 'Uncompressed'}, 'cipher': c, 'rcpts': [['key', 'cv25519_0', True]], 'sk': 'fixed%d' % n, 'signed': False, 'armor': False})
        cs.append({'d': 'A', 'msg': {'body': 'ascii', 'comp': 'Uncompressed'}, 'cipher': c, 'rcpts': [['pass', 0, 'SHA256']], 'sk': 'fixed%d' % n, 'signed': False, 'armor': False})
    # A6: recipients whose encrypting component is granted only one of the two encryption capabilities (alone, and beside a passphrase)
    for fl in ('comm', 'storage'):
        for rn, assub in (('cv25519_0', True), ('rsa1024_1', True), ('rsa2048_1', False), ('ecdh_p256_0', True)):
            cs.append({'d': 'A', 'msg': {'body': 'ascii', 'comp': 'ZLIB'}, 'cipher': 'AES256', 'rcpts': [['key', rn, assub, fl]], 'sk': 'gen', 'signed': True, 'armor': False})
            cs.append({'d': 'A', 'msg': {'body': 'text', 'comp': 'ZIP'}, 'cipher': 'AES128', 'rcpts': [['key', rn, assub, fl], ['pass', 0, 'SHA256']], 'sk': 'supplied', 'signed': False, 'armor': True})
    for j, pat in enumerate(('zeros', 'ones', 'count', 'ff', 'one-bit')):
        for rn in ('rsa2048_1', 'cv25519_0', 'ecdh_p256_0'):
            cs.append({'d': 'A', 'msg': {'body': 'ascii', 'comp': 'Uncompressed'}, 'cipher': ['AES128', 'AES256', 'CAST5'][j % 3], 'rcpts': [['key', rn, True]] + ([['pass', 0, 'SHA256']] if j % 2 else []),
                       'sk': 'pattern:' + pat, 'signed': False, 'armor': False})
    for c in ('IDEA', 'Twofish256'):
        cs.append({'d': 'refuse', 'cipher': c})
    if tier == 'thorough':
        for rn in ('rsa2048_1', 'cv25519_0'):
            cs.append({'d': 'A', 'msg': {'body': '4m', 'comp': 'ZIP'}, 'cipher': 'AES256', 'rcpts': [['key', rn, True]], 'sk': 'gen', 'signed': False, 'armor': False})
    # B: reference encryptor -> PGPy
    i = 0
    for c in ciphers:
        for rn in rc + ['pass1', 'pass3', 'pass3direct']:
            cs.append({'d': 'B', 'cipher': c, 'rcpt': rn, 'body': bodies[i % len(bodies)], 'comp': [0, 1, 2, 3][i % 4], 'level': [1, 6, 9][i % 3],
                       'framing': ['new', 'old', 'partial'][i % 3], 'sed': i % 7 == 3, 'lit_framing': ['new', 'old'][i % 2]})
            i += 1
    # a body whose repeats lie far back, under every compression algorithm and level, from another producer
    for j, comp in enumerate((1, 2, 3)):
        for level in (1, 6, 9):
            cs.append({'d': 'B', 'cipher': ciphers[(j * 3 + level) % len(ciphers)], 'rcpt': ['cv25519_0', 'pass3', 'rsa1024_1'][j], 'body': 'far', 'comp': comp, 'level': level,
                       'framing': ['new', 'partial'][level % 2], 'sed': False, 'lit_framing': 'new'})
    cs.append({'d': 'B2'})
    for i in range(4 if tier == 'quick' else 40):
        cs.append({'d': 'R', 'i': i, 'seed': seed})
    # RSA session-key integers with leading zero octets (one encryption in 256): written by the reference and by PGPy
    for rn in ('rsa1024_1', 'rsa2048_1'):
        cs.append({'d': 'S', 'rc': rn, 'seed': seed})
    # passphrase session-key packets whose wrapping cipher differs from the cipher of the data (what `gpg --symmetric --encrypt` writes)
    wrap = [7, 9, 3, 8, 13, 2, 11]
    for w in wrap:
        for c in ciphers:
            cs.append({'d': 'B3', 'wrap': w, 'cipher': c})
    if gpgx.available():
        cs.append({'d': 'G', 'n': 1 if tier == 'quick' else 4})
    return cs


def run_case(ctx, d):
    import pgpy
    with warnings.catch_warnings():
        warnings.simplefilter('ignore')
        {'A': _A, 'B': _B, 'B2': _B2, 'B3': _B3, 'G': _G, 'refuse': _refuse, 'R': _R, 'S': _S}[d['d']](ctx, d, pgpy)


def _S(ctx, d, pgpy):
    """an RSA-encrypted session key whose integer is at least one octet shorter than the modulus: the MPI on the wire is short, the value is not"""
    from pgpy.constants import SymmetricKeyAlgorithm, CompressionAlgorithm
    k, m = encwork.recipient(d['rc'])
    modbits = m['n'].bit_length()
    lit = encwork.literal_packet(b'short session-key integer', b'b', b'', 0)
    sk = bytes(range(1, 17))
    found = {'ref': [], 'pgpy': []}
    pub = k.pubkey
    msg = pgpy.PGPMessage.new(b'short session-key integer', format='b', compression=CompressionAlgorithm.Uncompressed)
    for n in range(6000):
        if len(found['ref']) < 2:
            blob = encwork.ref_encrypt(lit, 7, sk, [('key', m)])
            e = [p_ for p_ in wire.split(blob) if p_.tag == 1][0]
            if int.from_bytes(e.body[10:12], 'big') <= modbits - 8:
                found['ref'].append(blob)
        if len(found['pgpy']) < 2:
            enc = pub.encrypt(msg, cipher=SymmetricKeyAlgorithm.AES128)
            blob = bytes(enc)
            e = [p_ for p_ in wire.split(blob) if p_.tag == 1][0]
            if int.from_bytes(e.body[10:12], 'big') <= modbits - 8:
                found['pgpy'].append(blob)
        if len(found['ref']) >= 2 and len(found['pgpy']) >= 2:
            break
    for prod, blobs in found.items():
        for blob in blobs:
            ctx.count('short_rsa_session_key_integers')
            ctx.count('evaluations')
            where = {'producer': prod, 'rc': d['rc'], 'mpi_bits': int.from_bytes([p_ for p_ in wire.split(blob) if p_.tag == 1][0].body[10:12], 'big'), 'modulus_bits': modbits}
            view = encwork.ref_open(blob, [('key', m)])
            if view['results'][0] is None or isinstance(view['results'][0], Exception):
                ctx.fail('reference-cannot-recover-session-key', dict(where, err=repr(view['results'][0])[:120]))
                continue
            for form in ('binary', 'armor'):
                try:
                    em = pgpy.PGPMessage.from_blob(blob)
                    if form == 'armor':
                        em = pgpy.PGPMessage.from_blob(str(em))
                    dec = k.decrypt(em)
                    if bytes(dec._message._contents) != b'short session-key integer':
                        ctx.fail('pgpy-decrypts-to-different-plaintext', where)
                except Exception as e:
                    ctx.fail('pgpy-cannot-decrypt-%s' % ('reference-message' if prod == 'ref' else 'own-output'), dict(where, form=form, err=repr(e)[:120]))
    if len(found['ref']) + len(found['pgpy']) >= 2:
        ctx.nontrivial(d)


def _refuse(ctx, d, pgpy):
    from pgpy.constants import SymmetricKeyAlgorithm, CompressionAlgorithm
    k, m = encwork.recipient('cv25519_0')
    msg = pgpy.PGPMessage.new('x', compression=CompressionAlgorithm.Uncompressed)
    ctx.count('evaluations')
    for how in ('key', 'pass'):
        try:
            if how == 'key':
                e = k.pubkey.encrypt(msg, cipher=getattr(SymmetricKeyAlgorithm, d['cipher']))
            else:
                e = msg.encrypt('pw', cipher=getattr(SymmetricKeyAlgorithm, d['cipher']))
            ctx.fail('unsupported-cipher-not-refused', {'cipher': d['cipher'], 'how': how, 'out': hx(bytes(e))[:100]})
        except Exception as ex:
            ctx.outcome('refused:%s:%s' % (d['cipher'], type(ex).__name__))
    ctx.nontrivial(d)


def _A(ctx, d, pgpy):
    from pgpy.constants import SymmetricKeyAlgorithm, HashAlgorithm
    rng = ctx.rng('A', d)
    msg, content = encwork.make_message(d['msg'], rng)
    if d['signed']:
        msg |= sigwork.signer_key('ed25519_0').sign(msg)
    orig_bytes = bytes(msg)
    orig_fields = encwork.msg_fields(msg)
    calg = getattr(SymmetricKeyAlgorithm, d['cipher'])
    cid = encwork.CIPHERS[d['cipher']]
    if d['sk'] == 'gen':
        sk = None if len(d['rcpts']) == 1 else calg.gen_key()
    elif d['sk'] == 'supplied':
        sk = bytes(rng.getrandbits(8) for _ in range(sym.keylen(cid)))
    elif d['sk'].startswith('pattern'):
        # caller-supplied keys with structure: all zero, all one, a counting run, all 0xFF (checksum 0, below 256, above 255 * 16)
        n_ = sym.keylen(cid)
        sk = {'zeros': bytes(n_), 'ones': b'\x01' * n_, 'count': bytes(range(n_)), 'ff': b'\xff' * n_, 'one-bit': bytes(n_ - 1) + b'\x01'}[d['sk'][8:]]
    else:
        sk = bytes(rng.getrandbits(8) for _ in range(int(d['sk'][5:])))
    wrong_size = sk is not None and len(sk) != sym.keylen(cid)
    enc = msg
    secrets = []
    privs = []
    try:
        for r in d['rcpts']:
            if r[0] == 'key':
                k, m = encwork.recipient(r[1], r[2], r[3] if len(r) > 3 else 'both')
                enc = (encwork.longlived_pub(k) if len(d['rcpts']) % 2 else k.pubkey).encrypt(enc, sessionkey=sk, cipher=calg)
                secrets.append(('key', m))
                privs.append(('key', k))
            else:
                pw = PASSES[r[1]]
                enc = enc.encrypt(pw, sessionkey=sk, cipher=calg, hash=getattr(HashAlgorithm, r[2]))
                secrets.append(('pass', pw.encode('utf-8')))
                privs.append(('pass', pw))
    except Exception as e:
        if wrong_size:
            ctx.outcome('wrong_size_session_key_refused')
            ctx.count('evaluations')
            return
        raise
    blob = str(enc) if d['armor'] else bytes(enc)
    enc2 = pgpy.PGPMessage.from_blob(blob)
    raw = bytes(enc2)
    ctx.flags.setdefault('ciphers', {})[d['cipher']] = 1
    # (1) PGPy decrypts with each single secret
    for kind, s in privs:
        ctx.count('evaluations')
        try:
            dec = s.decrypt(enc2) if kind == 'key' else enc2.decrypt(s)
        except Exception as e:
            if wrong_size:
                ctx.outcome('wrong_size_session_key_undecryptable')
                continue
            ctx.fail('pgpy-cannot-decrypt-own-output', {'case': d, 'secret': kind, 'err': '%s: %s' % (type(e).__name__, str(e)[:200]), 'esk_order': [p.tag for p in wire.split(raw)]})
            continue
        got = encwork.msg_fields(dec)
        if got != orig_fields:
            diff = [k for k in got if got[k] != orig_fields[k]]
            ctx.fail('decrypted-message-differs', {'case': d, 'fields': diff, 'got': {k: str(got[k])[:80] for k in diff}, 'expected': {k: str(orig_fields[k])[:80] for k in diff}})
        else:
            ctx.count('pgpy_roundtrips')
    # (2) the independent decryptor opens it with each single secret
    try:
        view = encwork.ref_open(raw, secrets)
    except (wire.Malformed, grammar.NotGrammatical) as e:
        ctx.fail('reference-cannot-parse-encrypted-message', {'case': d, 'err': str(e), 'packets': hx(raw)[:200]})
        return
    if len(view['esk']) != len(d['rcpts']) or view['data'].tag != 18:
        ctx.fail('encrypted-message-structure', {'case': d, 'esk': len(view['esk']), 'data_tag': view['data'].tag})
    for (kind, s), res in zip(secrets, view['results']):
        ctx.count('evaluations')
        if res is None or isinstance(res, Exception):
            ctx.fail('reference-cannot-recover-session-key', {'case': d, 'secret': kind, 'err': repr(res)[:200], 'wrong_size_supplied': wrong_size})
            continue
        alg, key = res
        if alg != cid or len(key) != sym.keylen(cid) or (sk is not None and key != sk):
            ctx.fail('session-key-or-cipher-differs', {'case': d, 'alg': alg, 'keylen': len(key)})
            continue
        try:
            pt, prefix = encwork.open_data(view['data'], alg, key)
        except Exception as e:
            ctx.fail('reference-cannot-open-data', {'case': d, 'err': repr(e)[:200]})
            continue
        if pt != orig_bytes:
            ctx.fail('reference-plaintext-differs', {'case': d, 'got': hx(pt[:60]), 'expected': hx(orig_bytes[:60]), 'lens': [len(pt), len(orig_bytes)]})
        else:
            ctx.count('ref_opened_pgpy_output')
    if len(d['rcpts']) > 1 or d['cipher'] != 'AES256' or d['msg']['body'] != 'ascii':
        ctx.nontrivial(d)
    if len(ctx.samples) < 4:
        ctx.sample({'case': d, 'packets': [p.tag for p in wire.split(raw)], 'first_octets': hx(raw[:40])})


def _R(ctx, d, pgpy):
    """object reuse: the same plaintext object encrypted separately to different recipients, the same key objects decrypting a sequence of
    different messages (their own and other people's), the object returned by encrypt() used directly, copies, repeated decryption; nothing
    may carry over from one operation to the next and no operation may alter its inputs"""
    import copy
    from pgpy.constants import SymmetricKeyAlgorithm, CompressionAlgorithm
    r = ctx.rng('R', d['i'], d['seed'])
    names = r.sample(encwork.RECIPIENTS, 3)
    keys = [encwork.recipient(n) for n in names]
    items = []
    for j in range(6):
        body = r.choice(['ascii', 'text', 'binary', 'one', 'empty'])
        msg, content = encwork.make_message({'body': body, 'comp': r.choice(encwork.COMPRESSIONS)}, r)
        before = bytes(msg)
        fields = encwork.msg_fields(msg)
        # the same plaintext object goes to two recipients separately, and to a passphrase
        for who in r.sample(range(3), 2) + ['pw']:
            cname = r.choice(list(encwork.CIPHERS))
            calg = getattr(SymmetricKeyAlgorithm, cname)
            if who == 'pw':
                enc = msg.encrypt('pw %d' % j, cipher=calg)
            else:
                enc = encwork.longlived_pub(keys[who][0]).encrypt(msg, cipher=calg)
            if bytes(msg) != before:
                ctx.fail('encrypt-altered-its-plaintext-object', {'body': body, 'recipient': str(who)})
            items.append((enc, who, j, fields, cname, bytes(enc)))
    r.shuffle(items)
    for enc, who, j, fields, cname, raw in items:
        forms = [('direct', enc), ('copy', copy.copy(enc)), ('reparsed', pgpy.PGPMessage.from_blob(raw))]
        for fname, obj in forms:
            for attempt in range(2):
                for idx in range(3):
                    if who == 'pw':
                        continue
                    ctx.count('evaluations')
                    k = keys[idx][0]
                    try:
                        dec = k.decrypt(obj)
                    except Exception as e:
                        if idx == who:
                            ctx.fail('pgpy-cannot-decrypt-own-output', {'form': fname, 'attempt': attempt, 'cipher': cname, 'recipient': names[idx], 'err': '%s: %s' % (type(e).__name__, str(e)[:160])})
                        else:
                            ctx.count('reuse_foreign_refused')
                        continue
                    if idx != who:
                        ctx.fail('decrypted-with-a-key-it-was-not-encrypted-to', {'form': fname, 'to': names[who], 'with': names[idx]})
                    elif encwork.msg_fields(dec) != fields:
                        ctx.fail('decrypted-message-differs', {'form': fname, 'attempt': attempt, 'cipher': cname, 'recipient': names[idx], 'reuse': True})
                    else:
                        ctx.count('pgpy_roundtrips')
                        ctx.count('reuse_roundtrips')
                if who == 'pw':
                    ctx.count('evaluations')
                    for pw, good in (('pw %d' % ((j + 1) % 6), False), ('pw %d' % j, True)):
                        try:
                            dec = obj.decrypt(pw)
                        except Exception as e:
                            if good:
                                ctx.fail('pgpy-cannot-decrypt-own-output', {'form': fname, 'attempt': attempt, 'cipher': cname, 'recipient': 'passphrase', 'err': '%s: %s' % (type(e).__name__, str(e)[:160])})
                            else:
                                ctx.count('reuse_foreign_refused')
                            continue
                        if not good:
                            ctx.fail('decrypted-with-a-wrong-passphrase', {'form': fname, 'cipher': cname})
                        elif encwork.msg_fields(dec) != fields:
                            ctx.fail('decrypted-message-differs', {'form': fname, 'attempt': attempt, 'cipher': cname, 'recipient': 'passphrase', 'reuse': True})
                        else:
                            ctx.count('pgpy_roundtrips')
                            ctx.count('reuse_roundtrips')
                if bytes(obj) != raw:
                    ctx.fail('decrypt-altered-the-encrypted-message-object', {'form': fname, 'attempt': attempt, 'cipher': cname})
    ctx.nontrivial(d)


def _B(ctx, d, pgpy):
    rng = ctx.rng('B', d)
    content = encwork.body_of({'body': d['body']}, rng)
    data = content.encode('utf-8') if isinstance(content, str) else content
    lit = encwork.literal_packet(data, b'b', b'ref.bin', 1234567890, d['lit_framing'])
    plain = lit
    if d['comp']:
        cd = bytes([d['comp']]) + sym.compress(d['comp'], lit, d['level'])
        plain = wire.new_hdr(8, len(cd)) + cd
    cid = encwork.CIPHERS[d['cipher']]
    sk = bytes(rng.getrandbits(8) for _ in range(sym.keylen(cid)))
    salt = bytes(rng.getrandbits(8) for _ in range(8))
    pw = 'reference passphrase é'
    if d['rcpt'] == 'pass1':
        rcp = [('pass', pw, (1, 8, salt, None), False)]
    elif d['rcpt'] == 'pass3':
        rcp = [('pass', pw, (3, 2, salt, 0x30), False)]
    elif d['rcpt'] == 'pass3direct':
        rcp = [('pass', pw, (3, 10, salt, 0x10), True)]
        sk = sym.s2k(3, 10, salt, 0x10, pw, sym.keylen(cid))
    else:
        rcp = [('key', pool.mat(d['rcpt']))]
    blob = encwork.ref_encrypt(plain, cid, sk, rcp, legacy_sed=d['sed'], framing=d['framing'])
    # the reference must be able to open its own message (else harness defect)
    try:
        v = encwork.ref_open(blob, [('pass', pw.encode('utf-8')) if rcp[0][0] == 'pass' else ('key', rcp[0][1])])
        assert encwork.open_data(v['data'], *v['results'][0])[0] == plain
    except Exception as e:
        ctx.count('case_crashes')
        ctx.flags.setdefault('crashes', []).append({'case': d, 'error': 'reference cannot open its own message: %r' % e, 'tb': ''})
        return
    ctx.count('evaluations')
    try:
        em = pgpy.PGPMessage.from_blob(blob)
        if rcp[0][0] == 'pass':
            dec = em.decrypt(pw)
        else:
            k, _ = encwork.recipient(d['rcpt'])
            dec = k.decrypt(em)
    except Exception as e:
        ctx.fail('pgpy-cannot-decrypt-reference-message', {'case': d, 'err': '%s: %s' % (type(e).__name__, str(e)[:200])})
        return
    try:
        got = bytes(dec._message._contents)
        meta = (dec.filename, int(dec._message.mtime.timestamp()), dec._message.format, int(dec._compression))
    except Exception as e:
        ctx.fail('decrypted-reference-message-unreadable', {'case': d, 'err': repr(e)[:200]})
        return
    if got != data or meta != ('ref.bin', 1234567890, 'b', d['comp']):
        ctx.fail('decrypted-reference-message-differs', {'case': d, 'meta': list(meta), 'len': [len(got), len(data)]})
    else:
        ctx.count('pgpy_opened_ref_output')
    ctx.nontrivial(d)


def _B2(ctx, d, pgpy):
    """reference message to several recipients at once, ESK packets in every order"""
    rng = ctx.rng('B2')
    import itertools
    lit = encwork.literal_packet(b'to all of you', b'b', b'', 0)
    salt = b'saltsalt'
    recs = [('key', pool.mat('cv25519_0')), ('pass', 'pw-one', (3, 8, salt, 0x20), False), ('key', pool.mat('rsa1024_1')), ('pass', 'pw-two', (1, 2, salt, None), False)]
    for perm in itertools.permutations(range(4)):
        sk = bytes(rng.getrandbits(8) for _ in range(32))
        blob = encwork.ref_encrypt(lit, 9, sk, [recs[i] for i in perm])
        em = pgpy.PGPMessage.from_blob(blob)
        for i in range(4):
            ctx.count('evaluations')
            try:
                if recs[i][0] == 'key':
                    name = 'cv25519_0' if recs[i][1]['alg'] == 18 else 'rsa1024_1'
                    dec = encwork.recipient(name)[0].decrypt(em)
                else:
                    dec = em.decrypt(recs[i][1])
                if bytes(dec._message._contents) != b'to all of you':
                    ctx.fail('multi-recipient-reference-message-differs', {'order': perm, 'recipient': i})
                else:
                    ctx.count('pgpy_opened_ref_output')
            except Exception as e:
                ctx.fail('pgpy-cannot-decrypt-reference-message', {'case': 'multi-recipient order %s, recipient %d (%s)' % (list(perm), i, recs[i][0]),
                                                                   'err': '%s: %s' % (type(e).__name__, str(e)[:200])})
    ctx.nontrivial(d)


def _B3(ctx, d, pgpy):
    rng = ctx.rng('B3', d)
    cid = encwork.CIPHERS[d['cipher']]
    sk = bytes(rng.getrandbits(8) for _ in range(sym.keylen(cid)))
    data = b'wrapped with another cipher'
    lit = encwork.literal_packet(data, b'b', b'', 0)
    salt = bytes(rng.getrandbits(8) for _ in range(8))
    blob = encwork.ref_encrypt(lit, cid, sk, [('pass', 'wrap pass', (3, 8, salt, 0x10), False, d['wrap'])])
    ctx.count('evaluations')
    try:
        v = encwork.ref_open(blob, [('pass', b'wrap pass')])
        assert encwork.open_data(v['data'], *v['results'][0])[0] == lit
    except Exception as e:
        ctx.count('case_crashes')
        ctx.flags.setdefault('crashes', []).append({'case': d, 'error': 'reference cannot open its own message: %r' % e, 'tb': ''})
        return
    try:
        dec = pgpy.PGPMessage.from_blob(blob).decrypt('wrap pass')
        if bytes(dec._message._contents) != data:
            ctx.fail('decrypted-reference-message-differs', {'case': d})
        else:
            ctx.count('pgpy_opened_ref_output')
    except Exception as e:
        ctx.fail('pgpy-cannot-decrypt-reference-message', {'case': d, 'err': '%s: %s' % (type(e).__name__, str(e)[:200])})
    ctx.nontrivial(d)


def _G(ctx, d, pgpy):
    from pgpy.constants import SymmetricKeyAlgorithm, CompressionAlgorithm
    with gpgx.Home() as g:
        for name in ('rsa2048_1', 'cv25519_0', 'ecdh_p256_0', 'ecdh_p384_0', 'ecdh_p521_0'):
            k, m = encwork.recipient(name)
            ok, err = g.import_key(bytes(k))
            if not ok:
                ctx.observe('gpg_import_failed')
                continue
            fpr = str(k.fingerprint)
            for cname in (['AES256', 'CAST5', 'Camellia128', 'TripleDES'] if name in ('rsa2048_1', 'cv25519_0') else ['AES128']):
                msg = pgpy.PGPMessage.new('for gpg ' + cname, compression=CompressionAlgorithm.ZLIB)
                enc = k.pubkey.encrypt(msg, cipher=getattr(SymmetricKeyAlgorithm, cname))
                out, e = g.decrypt(bytes(enc))
                ctx.count('evaluations')
                ctx.count('gpg_opened_pgpy_output' if out is not None else 'gpg_rejected_pgpy_output')
                if out is None or out != ('for gpg ' + cname).encode():
                    ctx.fail('gpg-cannot-decrypt-pgpy-message', {'recipient': name, 'cipher': cname, 'gpg': e[-300:]})
                gcname = {'TripleDES': '3DES', 'Camellia128': 'CAMELLIA128'}.get(cname, cname)
                subfpr = str(list(k.subkeys.values())[0].fingerprint) + '!'   # several pool recipients share one primary: address the subkey
                gblob = g.encrypt(b'from gpg ' + cname.encode(), [subfpr], cipher=gcname, compress=1)
                if gblob is None:
                    ctx.observe('gpg_encrypt_failed')
                    continue
                try:
                    dec = k.decrypt(pgpy.PGPMessage.from_blob(gblob))
                    good = bytes(dec._message._contents) == b'from gpg ' + cname.encode()
                except Exception as ex:
                    good = False
                    e = repr(ex)
                ctx.count('pgpy_opened_gpg_output' if good else 'pgpy_rejected_gpg_output')
                if not good:
                    ctx.fail('pgpy-cannot-decrypt-gpg-message', {'recipient': name, 'cipher': cname, 'err': str(e)[:200]})
                # reference opens gpg's message too (validates the reference)
                try:
                    v = encwork.ref_open(gblob, [('key', m)])
                    encwork.open_data(v['data'], *v['results'][0])
                    ctx.count('ref_vs_gpg_agree')
                except Exception as ex:
                    ctx.count('case_crashes')
                    ctx.flags.setdefault('crashes', []).append({'case': d, 'error': 'reference cannot open gpg message: %r' % ex, 'tb': ''})
        for mode, dig in ((3, 'SHA256'), (1, 'SHA1'), (3, 'SHA512')):
            gblob = g.symmetric(b'gpg symmetric', 'sym pass', cipher='AES128', s2k_mode=mode, s2k_digest=dig, compress=2)
            if gblob is None:
                ctx.observe('gpg_symmetric_failed')
                continue
            ctx.count('evaluations')
            try:
                dec = pgpy.PGPMessage.from_blob(gblob).decrypt('sym pass')
                good = bytes(dec._message._contents) == b'gpg symmetric'
            except Exception as ex:
                good = False
            ctx.count('pgpy_opened_gpg_output' if good else 'pgpy_rejected_gpg_output')
            if not good:
                ctx.fail('pgpy-cannot-decrypt-gpg-symmetric-message', {'mode': mode, 'digest': dig})
        for h in ('SHA1', 'SHA256'):
            msg = pgpy.PGPMessage.new('pgpy symmetric', compression=CompressionAlgorithm.ZIP)
            enc = msg.encrypt('sym pass 2', hash=getattr(pgpy.constants.HashAlgorithm, h), cipher=SymmetricKeyAlgorithm.AES192)
            out, e = g.decrypt(bytes(enc), 'sym pass 2')
            ctx.count('evaluations')
            ctx.count('gpg_opened_pgpy_output' if out is not None else 'gpg_rejected_pgpy_output')
            if out != b'pgpy symmetric':
                ctx.fail('gpg-cannot-decrypt-pgpy-symmetric-message', {'hash': h, 'gpg': e[-300:]})
    ctx.nontrivial(d)


def post_merge(counters, flags):
    counters['ciphers_seen'] = len(flags.get('ciphers', {}))
