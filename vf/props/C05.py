"""C05 -- the hashed subpacket area is verified verbatim, exactly as received.

Signatures are made by the *reference* signer over generated hashed areas (every subpacket type 0..127, critical bit, all length
encodings incl. non-minimal, every flag-octet value, multi-octet flag fields, boolean octets, UTF-8 / raw high-bit text, 1..6
subpackets in any order, duplicates).  Monitors: (direct) the octets PGPSignature.hashdata() feeds to the hash for the signature's
own header + hashed area are compared with the received octets; (a) PGPKey.verify must accept; (b) every single-bit flip inside
the hashed region of an accepted signature must make verification fail.
"""
import warnings

from ..core import hx, time_limit, Stalled
from ..ref import wire, keys as RK, sig as RS
from .. import pool, sigwork

W0_COUNTER = 'C05_hashdata_of_parsed_signatures'   # thorough tier: the repository's own tests run under this property's always-on monitor
LEVEL = 'exploration'
RULE = ('case = (profile of hashed area, batch seed); per generated area: one evaluation for acceptance, one for the direct octet comparison, one per '
        'bit flip of the hashed region; non-trivial area = carries at least one subpacket beyond creation time + issuer fingerprint; '
        'distinct = distinct hashed-area octet strings (digest)')
ASSUMPTIONS = ['vf.ref.sig signer (validated against PGPy, fixtures and gpg in C02)', 'well-formedness of a subpacket body is judged by RFC 4880 5.2.3.x sizes only']
MIN_COUNTERS = {'quick': {'edited_copy_pairs': 30, 'areas_signed': 1400, 'accepted': 1300, 'hashdata_compared': 1300, 'bitflips': 20000, 'types_covered': 128},
                'thorough': {'areas_signed': 20000, 'bitflips': 300000}}
BUDGET = {'quick': (600, 1500), 'thorough': (1800, 3600)}
TECHNIQUE = 'runtime monitoring: reference-signed hostile hashed areas + direct comparison of hashed octets at PGPSignature.hashdata + exhaustive bit-flip fault injection'

FIXED = {2: 4, 3: 4, 4: 1, 5: 2, 7: 1, 9: 4, 12: 22, 16: 8, 25: 1}
PROFILES = ['unknown', 'alltypes', 'flags', 'multiflags', 'boolean', 'text', 'prefs', 'lenforms', 'mix', 'notation', 'revkey', 'embedded', 'prefs_unknown_ids', 'embedded_own']


def cases(tier, seed):
    cs = []
    n = 1 if tier == 'quick' else 4
    for prof in PROFILES:
        for b in range({'alltypes': 26, 'flags': 78, 'unknown': 10, 'mix': 16}.get(prof, 6) * n):
            cs.append({'profile': prof, 'batch': b, 'seed': seed, 'n': 10, 'flips': 90 if tier == 'quick' else 220})
    for sn in ('ed25519_0', 'ecdsa_p256_0', 'rsa1024_0', 'dsa1024_0'):
        cs.append({'profile': 'pairs', 'signer': sn, 'batch': 0, 'seed': seed})
    return cs


def _text(r):
    return r.choice([b'https://example.org/policy', 'pölicy ünïcode 日本 \U0001F600'.encode('utf-8'), b'\xe9\xfc\xff raw latin1 \x80\x81', b'', b'a' * 250,
                     bytes(r.getrandbits(8) for _ in range(r.randint(1, 40)))])


def gen_body(r, t, prof):
    """a well-formed body for subpacket type t"""
    if t in FIXED:
        if t in (4, 7, 25):
            return bytes([r.choice([0, 1, 1, 2, 0xFF, 0x80])])
        if t == 12:
            return bytes([r.choice([0x80, 0xC0, 0x81, 0xFF, 0xA0]), r.choice([1, 17, 19, 22])]) + bytes(r.getrandbits(8) for _ in range(20))
        return bytes(r.getrandbits(8) for _ in range(FIXED[t]))
    if t in (33, 35):
        # key version + fingerprint of that version's size; newer (32-octet) and unknown versions are somebody else's keys, not malformed input
        v, n = r.choice([(4, 20), (4, 20), (5, 32), (6, 32), (3, 16), (9, r.choice([1, 8, 19, 21, 40]))])
        return bytes([v]) + bytes(r.getrandbits(8) for _ in range(n))
    if t in (11, 21, 22):
        pool_ = {11: [1, 2, 3, 4, 7, 8, 9, 10, 11, 12, 13], 21: [1, 2, 3, 8, 9, 10, 11], 22: [0, 1, 2, 3]}[t]
        return bytes(r.choice(pool_) for _ in range(r.randint(0, 8)))
    if t in (23, 27, 30):
        return bytes(r.getrandbits(8) for _ in range(r.choice([1, 1, 1, 2, 4, 0])))
    if t in (6, 24, 26, 28):
        return _text(r)
    if t == 29:
        return bytes([r.choice([0, 1, 2, 3, 32])]) + _text(r)
    if t == 20:
        name = r.choice([b'name@example.org', 'nämé@example.org'.encode('utf-8'), b'n'])
        val = _text(r)
        flags = bytes([r.choice([0x80, 0x00, 0x80, 0xC0]), r.choice([0, 0, 1]), r.choice([0, 0, 0x10]), r.choice([0, 0, 1])])
        return flags + len(name).to_bytes(2, 'big') + len(val).to_bytes(2, 'big') + name + val
    if t == 31:
        return bytes([1, 8]) + bytes(32)
    if t == 32:
        return None
    # unknown / reserved / private types: arbitrary octets
    return bytes(r.getrandbits(8) for _ in range(r.choice([0, 1, 2, 5, 20, 100, 190, 191, 192, 250, 300])))


def gen_area(r, prof, batch, idx):
    """-> (list of raw subpackets for the hashed area, label)"""
    sps = []

    def add(t, body, critical=None, lenform=None):
        if body is None:
            return
        if critical is None:
            critical = r.random() < 0.2
        if lenform is None:
            lenform = 'min'
        if lenform == 2 and len(body) + 1 < 192:
            lenform = 5
        sps.append(wire.subpacket(t, body, critical=critical, lenform=lenform))

    if prof == 'unknown':
        for _ in range(r.randint(1, 3)):
            t = r.choice([0, 1, 8, 10, 13, 14, 15, 17, 18, 19] + list(range(36, 128)))
            add(t, gen_body(r, t, prof))
    elif prof == 'alltypes':
        t = (batch * 10 + idx) % 128
        add(t, gen_body(r, t, prof), critical=bool((batch * 10 + idx) // 128 % 2))
    elif prof == 'flags':
        v = (batch * 10 + idx) % 256
        t = [27, 30, 23][((batch * 10 + idx) // 256) % 3]
        add(t, bytes([v]))
        add(r.choice([27, 30, 23]), bytes([r.getrandbits(8)]))
    elif prof == 'multiflags':
        for t in r.sample([27, 30, 23], r.randint(1, 3)):
            add(t, bytes(r.getrandbits(8) for _ in range(r.choice([0, 2, 3, 4, 8]))))
    elif prof == 'boolean':
        for t in (4, 7, 25):
            if r.random() < 0.7:
                add(t, bytes([[0, 1, 2, 0xFF, 0x80, 0x7F][(idx + t) % 6]]))
    elif prof == 'text':
        for t in r.sample([6, 24, 26, 28, 29], r.randint(1, 3)):
            add(t, gen_body(r, t, prof))
    elif prof == 'prefs':
        for t in r.sample([11, 21, 22], r.randint(1, 3)):
            add(t, gen_body(r, t, prof))
    elif prof == 'prefs_unknown_ids':
        t = r.choice([11, 21, 22])
        add(t, bytes(r.choice([5, 6, 12, 14, 15, 20, 99, 100, 110, 200]) for _ in range(r.randint(1, 4))))
    elif prof == 'lenforms':
        t = r.choice([26, 100, 27, 20, 2 + 98])
        body = gen_body(r, t, prof)
        add(t, body, lenform=r.choice([5, 2, 5]))
        add(r.choice([101, 26]), bytes(r.getrandbits(8) for _ in range(r.choice([0, 10, 191, 300]))), lenform=r.choice(['min', 2, 5]))
    elif prof == 'notation':
        for _ in range(r.randint(1, 3)):
            add(20, gen_body(r, 20, prof))
    elif prof == 'revkey':
        add(12, gen_body(r, 12, prof))
        add(7, b'\x00')
    elif prof == 'embedded':
        return None, 'embedded'
    elif prof == 'mix':
        ts = [r.randrange(128) for _ in range(r.randint(1, 6))]
        if r.random() < 0.3:
            ts.append(ts[0])
        for t in ts:
            add(t, gen_body(r, t, prof), lenform=r.choice(['min', 'min', 5]))
    return sps, prof


def _embedded_own(ctx, d, pgpy):
    """the hashed region of an *embedded* signature (the 0x19 cross-signature carried, unhashed, in a subkey binding): every single-bit flip of its
    version / type / algorithm / hash octets, length and hashed area must stop that embedded signature from verifying"""
    from .. import foreignkey
    from ..oracle_selftest import verify_key_blob
    prim, sub = [('ed25519_0', 'ed25519_1'), ('rsa1024_0', 'ecdsa_p256_1'), ('ecdsa_p256_0', 'ed25519_2'), ('ed25519_1', 'rsa1024_1'), ('dsa1024_0', 'ed25519_3'), ('ed25519_2', 'ecdsa_p256_2')][d['batch'] % 6]
    style = foreignkey.STYLES[d['batch'] % len(foreignkey.STYLES)]
    blob, info = foreignkey.build(prim, sub, style)
    pub0 = pgpy.PGPKey.from_blob(blob)[0].pubkey
    blob = bytes(pub0)
    pk = wire.split(blob)
    bind = [p_ for p_ in pk if p_.tag == 2][-1]
    bs = RS.parse_sig(bind.body)
    emb = [bytes(b_) for t_, c_, b_, raw_ in bs['usp'] + bs['hsp'] if t_ == 32]
    if not emb:
        ctx.count('case_crashes')
        return
    eb = emb[0]
    off = blob.index(eb)
    es = RS.parse_sig(eb)
    hashed_len = 6 + len(es['hashed'])
    sv0 = pub0.verify(pub0)
    n0 = len(list(sv0.good_signatures))
    if not sv0 or n0 < 3:
        ctx.fail('reference-signature-with-well-formed-hashed-area-rejected', {'profile': 'embedded_own', 'style': style, 'good': n0})
        return
    ctx.count('areas_signed')
    for bit in range(hashed_len * 8):
        mm = bytearray(blob)
        mm[off + bit // 8] ^= 0x80 >> (bit % 8)
        ctx.count('evaluations')
        ctx.count('bitflips')
        ctx.count('embedded_signature_bitflips')
        try:
            with time_limit(10):
                k2 = pgpy.PGPKey.from_blob(bytes(mm))[0]
                sv = k2.verify(k2)
                good = len(list(sv.good_signatures))
                bad = len(list(sv.bad_signatures))
        except Stalled:
            ctx.outcome('stalled')
            continue
        except Exception:
            ctx.outcome('flip_rejected_at_load')
            continue
        # the outer binding carries the embedded signature unhashed, so it stays valid; the embedded signature itself must not count as good
        if bool(sv) and good >= n0:
            ctx.fail('bit-flip-in-hashed-region-still-verifies', {'profile': 'embedded_own', 'style': style, 'bit': bit, 'octet_in_embedded_signature': bit // 8,
                                                                 'good': good, 'bad': bad, 'keys': [prim, sub]})
    ctx.nontrivial(d)


def _pairs(ctx, d, pgpy):
    """one identity carrying a certification AND a copy of it whose signed area (or header octet) was edited while signature integers and left-16
    stay: both examined in ONE verify(key) call, in either order - the genuine one is good, the edited copy is bad, whichever comes first"""
    signer = sigwork.signer_key(d['signer'])
    blob = bytes(signer.pubkey)
    pk = wire.split(blob)
    ui = next(i for i, p_ in enumerate(pk) if p_.tag == 13)
    si = next(i for i in range(ui + 1, len(pk)) if pk[i].tag == 2)
    gen = pk[si].body
    ps = RS.parse_sig(gen)
    hl = len(ps['hashed'])
    edits = []
    for t, c, b, raw in ps['hsp']:
        off = 6 + ps['hashed'].index(raw)
        lenlen = len(raw) - 1 - len(b)
        if t == 2:
            e_ = bytearray(gen); e_[off + lenlen + 4] ^= 0x01; edits.append(('creation-time', bytes(e_)))
            e_ = bytearray(gen); e_[off + lenlen] ^= 0x80; edits.append(('critical-bit', bytes(e_)))
        if t == 27:
            e_ = bytearray(gen); e_[off + lenlen + 1] ^= 0x0c; edits.append(('key-flags', bytes(e_)))
    e_ = bytearray(gen); e_[1] = 0x10 if gen[1] != 0x10 else 0x12; edits.append(('type-octet', bytes(e_)))
    e_ = bytearray(gen); e_[3] = 10 if gen[3] != 10 else 8; edits.append(('hash-octet', bytes(e_)))
    for label, ed in edits:
        for order in ('genuine-first', 'edited-first'):
            pair = [gen, ed] if order == 'genuine-first' else [ed, gen]
            nb = b''.join(p_.raw for p_ in pk[:si]) + b''.join(wire.new_hdr(2, len(x)) + x for x in pair) + b''.join(p_.raw for p_ in pk[si + 1:])
            ctx.count('edited_copy_pairs')
            ctx.count('evaluations')
            where = {'signer': d['signer'], 'edit': label, 'order': order}
            try:
                k2 = pgpy.PGPKey.from_blob(nb)[0]
                sv = k2.verify(k2)
            except Exception as e:
                ctx.outcome('pairs_refused:' + type(e).__name__)
                continue
            good = [bytes(x.signature._signature.__bytearray__()) for x in sv.good_signatures if not x.signature.embedded]
            bad = [bytes(x.signature._signature.__bytearray__()) for x in sv.bad_signatures if not x.signature.embedded]
            strip = lambda raw_: wire.split(raw_)[0].body
            good = [strip(x) for x in good]
            bad = [strip(x) for x in bad]
            if ed in good:
                ctx.fail('edited-copy-of-a-certification-listed-good', where)
            if gen in bad:
                ctx.fail('genuine-certification-listed-bad-next-to-an-edited-copy', where)
            if bool(sv) and (ed in good or ed in bad or True) and ed not in bad and ed not in good:
                ctx.observe('edited_copy_not_examined:' + label)
    ctx.nontrivial(d)


def run_case(ctx, d):
    import pgpy
    if d['profile'] == 'pairs':
        with warnings.catch_warnings():
            warnings.simplefilter('ignore')
            return _pairs(ctx, d, pgpy)
    if d['profile'] == 'embedded_own':
        with warnings.catch_warnings():
            warnings.simplefilter('ignore')
            return _embedded_own(ctx, d, pgpy)
    r = ctx.rng('area', d['profile'], d['batch'], d['seed'])
    signer_name = ['ed25519_0', 'ed25519_0', 'ecdsa_p256_0', 'rsa1024_0', 'dsa1024_0'][d['batch'] % 5]
    sm = pool.mat(signer_name)
    signer = sigwork.signer_key(signer_name)
    pub = pgpy.PGPKey.from_blob(bytes(signer.pubkey))[0]
    prim, uids, subs = sigwork.export_view(signer)
    doc = b'C05 document'
    with warnings.catch_warnings():
        warnings.simplefilter('ignore')
        for idx in range(d['n']):
            sps, label = gen_area(r, d['profile'], d['batch'], idx)
            if label == 'embedded':
                # a valid embedded primary-key-binding signature inside the hashed area of a binding signature
                subm = pool.mat('ed25519_1' if signer_name != 'ed25519_1' else 'ed25519_2')
                eh, eu = RS.std_areas(subm, 1600000100)
                ebody = RS.sign(subm, 0x19, 8, eh, eu, primary=prim, subkey=subs[0])
                sps = [wire.subpacket(32, ebody), wire.subpacket(27, bytes([r.choice([2, 0x82, 0x42])]))]
                typ, rs, subj = 0x18, {'primary': prim, 'subkey': subs[0]}, list(pub.subkeys.values())[0]
            elif idx % 3 == 2:
                typ, rs, subj = 0x13, {'primary': prim, 'uid': [b for t, b in uids if t == 13][0]}, pub.userids[0]
            else:
                typ, rs, subj = 0x00, {'doc': doc}, doc
            order = list(sps)
            std_first = r.random() < 0.5
            base_h, unh = RS.std_areas(sm, 1600000000 + idx, with_fpr=r.random() < 0.8)
            hashed = (base_h + b''.join(order)) if std_first else (b''.join(order) + base_h)
            if len(hashed) > 60000:
                continue
            halg = r.choice([8, 10, 2])
            body = RS.sign(sm, typ, halg, hashed, unh, **rs)
            raw = wire.new_hdr(2, len(body)) + body
            region = body[:6 + len(hashed)]
            ctx.count('areas_signed')
            ctx.count('evaluations')
            for t_, c_, b_, raw_ in RS.subpackets(hashed):
                ctx.flags.setdefault('types', {})[str(t_)] = 1
            # reference must accept its own work (else harness defect)
            if not sigwork.ref_check(raw, sm, rs, strict=False)[0]:
                ctx.count('case_crashes')
                continue
            try:
                with time_limit(10):
                    sig = pgpy.PGPSignature.from_blob(raw)
                if sig._signature is None:
                    raise ValueError('not loaded')
            except Exception as e:
                ctx.count('pgpy_refused_to_load')
                ctx.outcome('load_refused:%s:%s' % (d['profile'], type(e).__name__))
                if d['profile'] == 'prefs_unknown_ids':
                    ctx.fail('signature-with-unknown-preference-ids-not-loadable', {'area': hx(hashed), 'err': repr(e)[:200]})
                else:
                    ctx.fail('well-formed-hashed-area-not-loadable', {'profile': d['profile'], 'area': hx(hashed)[:400], 'err': repr(e)[:200]})
                continue
            # (direct) octets fed to the hash for header + hashed area
            try:
                hd = sig.hashdata(subj)
                ctx.count('hashdata_compared')
                ctx.count('evaluations')
                got = hd[-(6 + len(region)):-6] if len(hd) >= 6 + len(region) else None
                tl = int.from_bytes(hd[-4:], 'big')
                got2 = hd[-(6 + tl):-6]
                if got2 != region:
                    ctx.fail('hashed-octets-differ-from-received', {'profile': d['profile'], 'received': hx(region), 'hashed': hx(got2)})
            except Exception as e:
                ctx.fail('hashdata-raised', {'profile': d['profile'], 'area': hx(hashed)[:300], 'err': repr(e)[:200]})
            # (a) acceptance
            res, _ = sigwork.pgpy_verify(pub, subj, sig)
            if res != 'true':
                ctx.fail('reference-signature-with-well-formed-hashed-area-rejected', {'profile': d['profile'], 'result': res, 'area': hx(hashed)[:400], 'sig': hx(raw)[:600]})
                continue
            ctx.count('accepted')
            # the same must hold for a *copy* of the received signature (public twins, copied keys and messages hold copies)
            try:
                import copy as _copy
                sc = _copy.copy(sig)
                hd2 = sc.hashdata(subj)
                tl2 = int.from_bytes(hd2[-4:], 'big')
                ctx.count('copies_checked')
                if hd2[-(6 + tl2):-6] != region:
                    ctx.fail('copy-of-received-signature-hashes-other-octets', {'profile': d['profile'], 'received': hx(region), 'hashed': hx(hd2[-(6 + tl2):-6])})
                elif sigwork.pgpy_verify(pub, subj, sc)[0] != 'true':
                    ctx.fail('copy-of-received-signature-rejected', {'profile': d['profile'], 'area': hx(hashed)[:300]})
                if bytes(sc) != bytes(sig):
                    ctx.fail('copy-of-received-signature-exports-differently', {'profile': d['profile']})
            except Exception as e:
                ctx.fail('copy-of-received-signature-raised', {'profile': d['profile'], 'err': repr(e)[:160]})
            if bytes(sig) != raw:
                ctx.observe('reexport_differs_outside_hashed_area' if bytes(sig)[:len(raw) - len(body) + 6 + len(hashed)][-len(region):] == region else 'reexport_changes_hashed_area')
            if sps:
                ctx.nontrivial(hx(__import__('hashlib').sha1(hashed).digest()[:8]))
            # (b) every bit flip in the hashed region
            hoff = len(raw) - len(body)
            nbits = len(region) * 8
            bits = range(nbits) if (nbits <= 64 * 8 + 48 and d['flips'] > 100) or nbits <= d['flips'] else sorted(set(list(range(48)) + r.sample(range(nbits), min(nbits, d['flips']))))
            for b in bits:
                m = bytearray(raw)
                m[hoff + b // 8] ^= 0x80 >> (b % 8)
                ctx.count('bitflips')
                ctx.count('evaluations')
                try:
                    with time_limit(10):
                        s2 = pgpy.PGPSignature.from_blob(bytes(m))
                        if s2._signature is None:
                            ctx.outcome('flip:unloadable')
                            continue
                        res2, _ = sigwork.pgpy_verify(pub, subj, s2)
                except Stalled:
                    ctx.outcome('flip:stalled')
                    continue
                except Exception:
                    ctx.outcome('flip:unloadable')
                    continue
                ctx.outcome('flip:' + (res2 if not res2.startswith('error') else 'error'))
                if res2 == 'true':
                    # the reference has the last word on whether the flip is semantic (it always is inside the hashed region)
                    ctx.fail('bit-flip-in-hashed-region-still-verifies', {'profile': d['profile'], 'bit': b, 'byte_offset_in_region': b // 8,
                                                                           'region': hx(region), 'mutated': hx(m[hoff:hoff + len(region)])})
            if len(ctx.samples) < 5:
                ctx.sample({'profile': d['profile'], 'hashed_area': hx(hashed)[:200], 'sigtype': typ, 'signer': signer_name})


def post_merge(counters, flags):
    counters['types_covered'] = len(flags.get('types', {}))


def coverage_extra(counters, flags):
    return {'subpacket_types_seen': sorted(int(t) for t in flags.get('types', {}))}
