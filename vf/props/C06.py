"""C06 -- secret keys at rest: passphrase protection is correct, checked, wiped after use.

(protect) every algorithm x protection cipher x S2K hash x passphrase class: the export contains no secret integer in the clear and the
independent implementation (own S2K, own CFB, SHA-1 / checksum) recovers exactly the original secret integers.  (foreign) reference-made
protected keys in every S2K form PGPy must read (simple / salted / iterated, usage 254 / 255, GNU dummy) unlock and sign/decrypt.
(history) random walks over protect / unlock-right / unlock-wrong / re-protect / export / import / copy / sign / decrypt against a small
model.  (faults) source-free failpoints: an exception is raised at the k-th executed pgpy line inside the unlock scope and inside
unlock() itself, for every k; afterwards the key must be locked, refuse private operations and hold no secret integer (object-graph scan).
"""
import copy
import gc
import os
import warnings

from ..core import hx, REPO
from ..ref import wire, keys as RK, sig as RS, sym
from .. import pool, sigwork, encwork, taps

LEVEL = 'exploration'
RULE = ('case = (key algorithm, protection cipher, S2K hash, passphrase class) | (foreign S2K form, algorithm) | history | (failpoint sweep: key, operation, '
        'block of fault positions); one evaluation per checked state or injected fault; non-trivial = a protected key was unlocked at least once or a fault '
        'was injected; distinct = distinct case descriptors')
ASSUMPTIONS = ['CPython cannot wipe immutable ints: "holds no secret integer" is checked on the object graph reachable from the key, not on freed heap memory',
               'failpoints are never placed inside the cleanup code itself (user code cannot fail there)']
MIN_COUNTERS = {'quick': {'protect_checked': 20, 'ref_recovered_secrets': 40, 'foreign_unlocked': 30, 'history_steps': 100, 'faults_injected': 1500, 'graph_scans': 1500, 'wrong_passphrase_rejected': 30, 'wrong_passphrase_rejected_while_open': 30, 'stub_operations_refused': 100, 'mixed_locked_operations_refused': 30, 'mixed_unlocked_operations': 15},
                'thorough': {'faults_injected': 8000, 'history_steps': 1500}}
BUDGET = {'quick': (600, 1500), 'thorough': (1800, 3600)}
TECHNIQUE = 'runtime monitoring: reference-model monitor on exports + history model + control-fault injection (sys.monitoring LINE failpoints at every line of the unlock scope) with object-graph invariant scan'

KEYS = [('rsa1024_0', 'rsa1024_1'), ('dsa1024_0', 'cv25519_0'), ('ecdsa_p256_0', 'ecdh_p256_0'), ('ed25519_0', 'cv25519_1'), ('ecdsa_k256_0', 'ed25519_1'), ('rsa2048_0', 'ecdh_p384_0')]
PASSES = {'ascii': 'correct horse battery', 'utf8': 'pässwörd 日本\U0001F600', 'long': 'x' * 1024, 'bytes': b'\x00\xff raw bytes \x80', 'space': ' ',
          'untidy': ' Cafe\u0301 \u212b \ufb01 \u1112\u1161\u11ab\t\r\n'}      # not NFC/NFKC, blanks at both ends, newline at the end: used exactly as given
PCIPHERS = ['AES128', 'AES192', 'AES256', 'CAST5', 'TripleDES', 'Blowfish', 'Camellia128', 'Camellia192', 'Camellia256']
PHASHES = ['SHA1', 'SHA256', 'SHA512', 'MD5', 'SHA224', 'SHA384', 'RIPEMD160']


def cases(tier, seed):
    import random
    r = random.Random(seed)
    cs = []
    i = 0
    for pk, sk in KEYS:
        for j in range(4 if tier == 'quick' else 12):
            cs.append({'t': 'protect', 'key': pk, 'sub': sk, 'cipher': PCIPHERS[(i + j) % len(PCIPHERS)], 'hash': PHASHES[(i * 2 + j) % len(PHASHES)], 'pw': list(PASSES)[(i + j) % len(PASSES)]})
        i += 1
    for name in ('rsa1024_0', 'dsa1024_0', 'elg1024_0', 'ecdsa_p256_0', 'ed25519_0', 'cv25519_0', 'ecdh_p256_0', 'dsa2048_0'):
        for usage in (254, 255):
            for spec in (0, 1, 3):
                cs.append({'t': 'foreign', 'key': name, 'usage': usage, 'spec': spec, 'cipher': r.choice([7, 9, 3, 2, 11]), 'halg': r.choice([2, 8, 10, 1]), 'cnt': r.choice([0, 0x10, 0x60])})
    # foreign keys under each of the passphrase classes, with small iteration counts (a passphrase longer than the count is hashed whole)
    for j, pwk in enumerate(PASSES):
        for n_, name in enumerate(('ed25519_0', 'rsa1024_0', 'ecdsa_p256_0', 'cv25519_0')):
            cs.append({'t': 'foreign', 'key': name, 'usage': [254, 255][(j + n_) % 2], 'spec': [3, 3, 1, 0][(j + n_) % 4], 'cipher': [7, 9, 3, 11][(j + n_) % 4], 'halg': [8, 2, 10][(j + n_) % 3],
                       'cnt': [0, 1, 0x10][(j + n_) % 3], 'pw': pwk})
            if pwk == 'long':
                # iterated, count 1024 < salt + passphrase (1032 octets)
                cs[-1].update({'spec': 3, 'cnt': 0})
    # stub keys (secret held elsewhere) of every algorithm family
    for name in ('rsa1024_0', 'dsa1024_0', 'elg1024_0', 'ecdsa_p256_0', 'ed25519_0', 'cv25519_0', 'ecdh_p256_0', 'dsa2048_0'):
        cs.append({'t': 'gnu', 'key': name, 'ext': 1})
        cs.append({'t': 'gnu', 'key': name, 'ext': 2})
    for h in range(12 if tier == 'quick' else 240):
        cs.append({'t': 'history', 'h': h, 'seed': seed, 'key': KEYS[h % len(KEYS)][0], 'sub': KEYS[h % len(KEYS)][1], 'n': 12})
    # an open primary over a component that is protected on its own: the operation is handed to the subkey by its usage flags
    for prim in ('ed25519_1', 'rsa1024_2', 'ecdsa_p256_1'):
        for sub in ('ed25519_2', 'rsa1024_1', 'dsa1024_1', 'ecdsa_p384_1', 'cv25519_1', 'ecdh_p256_1'):
            cs.append({'t': 'mixed', 'key': prim, 'sub': sub})
    for name, op in (('ed25519_0', 'sign'), ('rsa1024_0', 'sign'), ('dsa1024_0', 'sign'), ('ecdsa_p256_0', 'sign'), ('cv25519_0', 'decrypt'), ('rsa1024_1', 'decrypt'), ('ecdh_p256_0', 'decrypt')):
        parts = 8
        for p in range(parts):
            cs.append({'t': 'faults', 'key': name, 'op': op, 'part': p, 'of': parts, 'where': 'body'})
        for p in range(2):
            cs.append({'t': 'faults', 'key': name, 'op': op, 'part': p, 'of': 2, 'where': 'enter'})
    return cs


def secrets_of(names):
    out = []
    for n in names:
        out += [(n + '.' + f, b) for f, b in RK.secret_octet_strings(pool.mat(n))]
    return out


def graph_scan(root, secret_octets, maxdepth=10, maxnodes=40000):
    """breadth-first walk of the objects reachable from root; -> list of findings (field name, how)"""
    ints = {int.from_bytes(b, 'big'): f for f, b in secret_octets if not f.endswith('_le')}
    found = []
    seen = set()
    frontier = [root]
    depth = 0
    n = 0
    while frontier and depth <= maxdepth and n < maxnodes:
        nxt = []
        for o in frontier:
            if id(o) in seen:
                continue
            seen.add(id(o))
            n += 1
            if isinstance(o, int) and not isinstance(o, bool):
                if o in ints:
                    found.append((ints[o], 'int'))
                continue
            if isinstance(o, (bytes, bytearray)):
                if len(o) >= 8:
                    for f, b in secret_octets:
                        if b in o:
                            found.append((f, 'octets'))
                continue
            if isinstance(o, (str, type, type(graph_scan))) or o is None:
                continue
            mod = getattr(type(o), '__module__', '') or ''
            if mod.startswith(('cryptography', '_cffi', 'vf.', 'warnings', 'logging', 'threading', 're', 'enum')):
                continue
            try:
                nxt.extend(gc.get_referents(o))
            except Exception:
                pass
        frontier = nxt
        depth += 1
    return found


def locked_invariants(ctx, k, names, where, expect_refuse_sign=True):
    """after an unlock scope ended (normally or by exception): locked, refusing, holding no secret"""
    from pgpy.errors import PGPError
    ctx.count('graph_scans')
    ctx.count('evaluations')
    if not k.is_protected or k.is_unlocked:
        ctx.fail('key-not-locked-after-scope', {'where': where, 'is_protected': k.is_protected, 'is_unlocked': k.is_unlocked})
    for sk in k.subkeys.values():
        if sk.is_unlocked:
            ctx.fail('subkey-not-locked-after-scope', {'where': where})
    found = graph_scan(k, secrets_of(names))
    if found:
        ctx.fail('secret-integer-reachable-from-locked-key', {'where': where, 'found': found[:4]})
    if expect_refuse_sign:
        try:
            with warnings.catch_warnings():
                warnings.simplefilter('ignore')
                s = k.sign('must refuse')
            ctx.fail('private-operation-on-locked-key-succeeded', {'where': where, 'sig': hx(bytes(s))[:80]})
        except PGPError:
            pass
        except Exception as e:
            ctx.outcome('locked_sign_error:' + type(e).__name__)
    # every other operation that needs the secret: none of them may produce anything from a locked key
    ops = [('sign-none', lambda: k.sign(None)), ('revoke-key', lambda: k.revoke(k)), ('direct', lambda: k.certify(k))]
    if k.userids:
        ops += [('certify-own-uid', lambda: k.certify(k.userids[0])), ('revoke-uid', lambda: k.revoke(k.userids[0]))]
    if k.subkeys:
        sk0 = list(k.subkeys.values())[0]
        ops += [('revoke-subkey', lambda: k.revoke(sk0)), ('bind', lambda: k.bind(sk0, crosssign=False)), ('subkey-sign', lambda: sk0.sign('x'))]
    for name, f in ops:
        ctx.count('locked_operations_tried')
        try:
            with warnings.catch_warnings():
                warnings.simplefilter('ignore')
                r_ = f()
            ctx.fail('private-operation-on-locked-key-succeeded', {'where': where, 'op': name, 'result': hx(bytes(r_))[:60] if r_ is not None else None})
        except PGPError:
            ctx.count('locked_operations_refused')
        except Exception as e:
            # refused in the sense that nothing came out, but not by the lock check: the operation got as far as the (absent) secret
            ctx.outcome('locked_%s_error:%s' % (name, type(e).__name__))
            if expect_refuse_sign and name in ('revoke-key', 'revoke-uid', 'revoke-subkey', 'direct', 'certify-own-uid', 'sign-none', 'bind'):
                ctx.fail('locked-key-operation-reached-the-secret', {'where': where, 'op': name, 'error': '%s: %s' % (type(e).__name__, str(e)[:100])})


def run_case(ctx, d):
    import pgpy
    with warnings.catch_warnings():
        warnings.simplefilter('ignore')
        getattr(__import__(__name__, fromlist=['x']), '_' + d['t'])(ctx, d, pgpy)


def _mixed(ctx, d, pgpy):
    """primary without protection (certify only), subkey protected and locked: whatever is called on the primary and handed to the subkey
    must be refused while the subkey is locked, work inside the subkey's scope, and be refused again afterwards"""
    from .. import foreignkey
    from ..ref import sym
    sm = pool.mat(d['sub'])
    signing = sm['alg'] in (1, 17, 19, 22)
    flags = b'\x02' if signing and sm['alg'] != 1 else (b'\x0e' if sm['alg'] == 1 else b'\x0c')
    prot = dict(usage=254, cipher=9, s2k=(3, 8, b'\x11\x12\x13\x14\x15\x16\x17\x18', 96), iv=bytes(range(1, 1 + sym.blocksize(9))), passphrase=b'sub pass')
    raw, desc = foreignkey.build(d['key'], d['sub'], protect=None, sub_protect=prot, sub_flags=flags, primary_flags=b'\x01', created=None)
    k = pgpy.PGPKey.from_blob(raw)[0]
    sk = list(k.subkeys.values())[0]
    ctx.count('evaluations')
    if k.is_protected or not sk.is_protected or sk.is_unlocked:
        ctx.fail('foreign-protected-key-not-locked', {'case': d, 'primary_protected': k.is_protected, 'sub_protected': sk.is_protected, 'sub_unlocked': sk.is_unlocked})
        return
    enc = None
    if flags[0] & 0x0c:
        try:
            enc = k.pubkey.encrypt(pgpy.PGPMessage.new('for the subkey'))
        except Exception as e:
            ctx.outcome('mixed_encrypt_error:' + type(e).__name__)

    def ops():
        o = []
        if flags[0] & 0x02:
            o.append(('sign', lambda: k.sign('doc')))
            o.append(('sign_message', lambda: k.sign(pgpy.PGPMessage.new('m'))))
        if enc is not None:
            o.append(('decrypt', lambda: k.decrypt(enc)))
        return o

    def refused(where):
        for name, f in ops():
            ctx.count('evaluations')
            ctx.count('mixed_locked_operations_tried')
            try:
                r_ = f()
            except pgpy.errors.PGPError:
                ctx.count('mixed_locked_operations_refused')
                continue
            except Exception as e:
                ctx.outcome('mixed_%s_error:%s' % (name, type(e).__name__))
                ctx.fail('locked-key-operation-reached-the-secret', {'case': d, 'where': where, 'op': name, 'error': '%s: %s' % (type(e).__name__, str(e)[:100])})
                continue
            ctx.fail('private-operation-on-locked-key-succeeded', {'case': d, 'where': where, 'op': name, 'result': hx(bytes(r_))[:60]})

    refused('open primary, subkey never unlocked')
    try:
        with sk.unlock('sub pass'):
            for name, f in ops():
                ctx.count('evaluations')
                r_ = f()
                if name == 'sign' and not k.pubkey.verify('doc', r_):
                    ctx.fail('signature-by-unlocked-key-invalid', {'case': d, 'where': 'mixed'})
                if name == 'decrypt' and r_.message != 'for the subkey':
                    ctx.fail('decrypt-by-unlocked-key-differs', {'case': d, 'where': 'mixed'})
                ctx.count('mixed_unlocked_operations')
    except Exception as e:
        ctx.fail('foreign-protected-key-cannot-be-unlocked', {'case': d, 'err': '%s: %s' % (type(e).__name__, str(e)[:200])})
    refused('open primary, after the subkey scope')
    ctx.nontrivial(d)


def _check_export_hides(ctx, k, names, where):
    blob = bytes(k)
    text = str(k)
    for f, b in secrets_of(names):
        if b in blob:
            ctx.fail('secret-integer-in-protected-export', {'where': where, 'field': f})
    try:
        from ..ref import armor
        if armor.dearmor(text)['data'] != blob:
            ctx.fail('armored-export-differs', {'where': where})
    except wire.Malformed as e:
        ctx.fail('armored-export-unreadable', {'where': where, 'err': str(e)})
    return blob


def _ref_recover(ctx, blob, names, pw, where):
    """the independent implementation recovers exactly the original secret integers"""
    pwb = pw if isinstance(pw, bytes) else pw.encode('utf-8')
    comps = [p for p in wire.split(blob) if p.tag in (5, 7)]
    if len(comps) != len(names):
        ctx.fail('secret-key-packets-missing', {'where': where, 'n': len(comps)})
        return
    for p, n in zip(comps, names):
        m = pool.mat(n)
        try:
            pub, sec, info = RK.parse_sec(p.body, pwb)
        except RK.BadPassphrase as e:
            ctx.fail('reference-cannot-unprotect', {'where': where, 'component': n, 'err': str(e)})
            continue
        except wire.Malformed as e:
            ctx.fail('reference-cannot-parse-protected-key', {'where': where, 'component': n, 'err': str(e)})
            continue
        if info['usage'] != 254 and info.get('usage') != 255:
            ctx.fail('not-protected', {'where': where, 'usage': info['usage']})
        bad = [f for f in RK.SECF[m['alg']] if sec[f] != m[f]]
        if bad:
            ctx.fail('recovered-secret-differs', {'where': where, 'component': n, 'fields': bad})
        else:
            ctx.count('ref_recovered_secrets')
        try:
            RK.parse_sec(p.body, pwb + b'x')
            ctx.fail('reference-accepts-wrong-passphrase', {'where': where})
        except RK.BadPassphrase:
            pass


def _use(ctx, pgpy, k, names, where):
    """a key that is usable must sign (reference verifies) and, if it has an encryption component, decrypt"""
    sm = pool.mat(names[0])
    if sm['alg'] in (1, 17, 19, 22):
        s = k.sign('use me')
        ok, why, _ = sigwork.ref_check(bytes(s), sm, {'doc': b'use me'})
        if not ok:
            ctx.fail('signature-by-unlocked-key-invalid', {'where': where, 'why': why})
    for n in names:
        m = pool.mat(n)
        if m['alg'] in (1, 18):
            from ..ref import pk as RPK
            lit = encwork.literal_packet(b'decrypt me', b'b', b'', 0)
            sk = bytes(range(16))
            blob = encwork.ref_encrypt(lit, 7, sk, [('key', m)])
            dec = k.decrypt(pgpy.PGPMessage.from_blob(blob))
            if bytes(dec._message._contents) != b'decrypt me':
                ctx.fail('decrypt-by-unlocked-key-differs', {'where': where})
            break


def _protect(ctx, d, pgpy):
    from pgpy.constants import SymmetricKeyAlgorithm, HashAlgorithm
    from pgpy.errors import PGPDecryptionError, PGPError
    names = [d['key'], d['sub']]
    k = pool.pgpy_key(d['key'], sub=d['sub'], fresh=True, uid='protect ' + d['key'])
    pw = PASSES[d['pw']]
    try:
        k.protect(pw, getattr(SymmetricKeyAlgorithm, d['cipher']), getattr(HashAlgorithm, d['hash']))
    except AttributeError:
        if d['pw'] == 'bytes':
            ctx.outcome('bytes_passphrase_unsupported')
            return
        raise
    ctx.count('protect_checked')
    ctx.count('evaluations')
    where = {'case': d}
    if not k.is_protected or k.is_unlocked:
        ctx.fail('protect-did-not-lock', where)
    blob = _check_export_hides(ctx, k, names, where)
    _ref_recover(ctx, blob, names, pw, where)
    locked_invariants(ctx, k, names, 'after protect')
    # re-import the protected export: same behaviour
    for form, kk in (('same-object', k), ('reimported', pgpy.PGPKey.from_blob(blob)[0])):
        for wrong in ('', 'wrong', (pw + 'x') if isinstance(pw, str) else pw + b'x'):
            try:
                with kk.unlock(wrong):
                    ctx.fail('wrong-passphrase-unlocks', {'case': d, 'form': form, 'wrong': repr(wrong)[:30]})
            except PGPDecryptionError:
                ctx.count('wrong_passphrase_rejected')
            except Exception as e:
                ctx.count('wrong_passphrase_rejected')
                ctx.outcome('wrong_passphrase_error:' + type(e).__name__)
            if kk.is_unlocked:
                ctx.fail('key-unlocked-after-wrong-passphrase', {'case': d, 'form': form})
        with kk.unlock(pw):
            if not kk.is_unlocked:
                ctx.fail('right-passphrase-does-not-unlock', {'case': d, 'form': form})
            _use(ctx, pgpy, kk, names, {'case': d, 'form': form})
            # a wrong passphrase presented while the key is open (a "confirm your passphrase" step inside an outer scope) raises as well - to the
            # key and to each subkey - and nothing is handed out under it
            for tn, target in [('key', kk)] + [('subkey', x) for x in kk.subkeys.values()]:
                wrong = (pw + '?') if isinstance(pw, str) else pw + b'?'
                try:
                    with target.unlock(wrong):
                        ctx.fail('wrong-passphrase-accepted-while-the-key-is-open', {'case': d, 'form': form, 'presented_to': tn})
                except PGPDecryptionError:
                    ctx.count('wrong_passphrase_rejected')
                    ctx.count('wrong_passphrase_rejected_while_open')
                except Exception as e:
                    ctx.count('wrong_passphrase_rejected')
                    ctx.outcome('wrong_passphrase_while_open_error:' + type(e).__name__)
        locked_invariants(ctx, kk, names, 'after unlock scope (%s)' % form)
    # protect again with the very same passphrase, cipher and hash (fresh salt and IV expected): export must still open for others
    with k.unlock(pw):
        k.protect(pw, getattr(SymmetricKeyAlgorithm, d['cipher']), getattr(HashAlgorithm, d['hash']))
    blob2 = _check_export_hides(ctx, k, names, dict(where, again=True))
    _ref_recover(ctx, blob2, names, pw, dict(where, again='same passphrase, cipher and hash'))
    k3 = pgpy.PGPKey.from_blob(blob2)[0]
    try:
        with k3.unlock(pw):
            _use(ctx, pgpy, k3, names, dict(where, again='reimported after re-protect'))
    except Exception as e:
        ctx.fail('reprotected-key-cannot-be-unlocked-after-reimport', dict(where, err='%s: %s' % (type(e).__name__, str(e)[:120])))
    ctx.nontrivial(d)
    if len(ctx.samples) < 3:
        ctx.sample({'case': d, 'protected_export_octets': len(blob)})


def _foreign_blob(d):
    m = pool.mat(d['key'])
    pw = b'foreign pass'
    if d.get('pw'):
        pw = PASSES[d['pw']]
        pw = pw.encode('utf-8') if isinstance(pw, str) else pw
    cipher = d['cipher']
    prot = dict(usage=d['usage'], cipher=cipher, s2k=(d['spec'], d['halg'], b'\x01\x02\x03\x04\x05\x06\x07\x08', d['cnt']), iv=bytes(range(1, 1 + sym.blocksize(cipher))), passphrase=pw)
    body = RK.sec_body(m, prot)
    return wire.new_hdr(5, len(body)) + body, pw, m


def _foreign(ctx, d, pgpy):
    from pgpy.errors import PGPDecryptionError
    raw, pw, m = _foreign_blob(d)
    ctx.count('evaluations')
    try:
        k = pgpy.PGPKey.from_blob(raw)[0]
    except Exception as e:
        ctx.fail('foreign-protected-key-not-loadable', {'case': d, 'err': repr(e)[:200]})
        return
    if not k.is_protected or k.is_unlocked:
        ctx.fail('foreign-protected-key-not-locked', {'case': d})
    out = bytes(k)
    if out != raw:
        ctx.fail('foreign-protected-key-reexport-differs', {'case': d, 'raw': hx(raw[-40:]), 'out': hx(out[-40:]), 'lens': [len(raw), len(out)]})
    if m['alg'] == 16:
        ctx.outcome('elgamal_parse_only')
        ctx.nontrivial(d)
        return
    # identity needed for operations: certify inside the scope
    right = PASSES[d['pw']] if d.get('pw') else 'foreign pass'
    wrongs = ['foreign pass x'] if not d.get('pw') else [right[:-1], right + (b'x' if isinstance(right, bytes) else 'x'), right[:len(right) // 2]]
    try:
        for w_ in wrongs[1:]:
            try:
                with k.unlock(w_):
                    ctx.fail('wrong-passphrase-unlocks', {'case': d, 'wrong': repr(w_)[:40]})
            except PGPDecryptionError:
                ctx.count('wrong_passphrase_rejected')
        with k.unlock(wrongs[0]):
            ctx.fail('wrong-passphrase-unlocks', {'case': d})
    except PGPDecryptionError:
        ctx.count('wrong_passphrase_rejected')
    except Exception as e:
        ctx.outcome('wrong_passphrase_error:' + type(e).__name__)
        ctx.count('wrong_passphrase_rejected')
    try:
        with k.unlock(right):
            if not k.is_unlocked:
                ctx.fail('right-passphrase-does-not-unlock', {'case': d})
            for f in RK.SECF[m['alg']]:
                if int(getattr(k._key.keymaterial, f)) != m[f]:
                    ctx.fail('unlocked-secret-differs', {'case': d, 'field': f})
            if m['alg'] in (1, 17, 19, 22):
                k.add_uid(pgpy.PGPUID.new('foreign'), usage={pgpy.constants.KeyFlags.Sign})
                s = k.sign('foreign doc')
                ok, why, _ = sigwork.ref_check(bytes(s), m, {'doc': b'foreign doc'})
                if not ok:
                    ctx.fail('signature-by-foreign-key-invalid', {'case': d, 'why': why})
        ctx.count('foreign_unlocked')
    except Exception as e:
        ctx.fail('foreign-protected-key-cannot-be-unlocked', {'case': d, 'err': '%s: %s' % (type(e).__name__, str(e)[:200])})
        return
    locked_invariants(ctx, k, [d['key']], 'foreign after scope', expect_refuse_sign=m['alg'] in (1, 17, 19, 22))
    # unlocking and leaving the scope changes nothing in what is stored: the secret-key packet is exported as it arrived, also the second time
    for again in range(2):
        first = wire.split(bytes(k))[0]
        if first.raw != raw:
            ctx.fail('foreign-protected-key-reexport-differs', {'case': d, 'after': 'unlock scope %d' % (again + 1), 'lens': [len(raw), len(first.raw)], 'tail_in': hx(raw[-12:]), 'tail_out': hx(first.raw[-12:])})
            break
        try:
            with k.unlock(right):
                pass
        except Exception:
            break
    ctx.nontrivial(d)


def _gnu(ctx, d, pgpy):
    m = pool.mat(d['key'])
    body = RK.sec_body(m, {'gnu': d['ext'], 'usage': 255, 'serial': bytes(range(16))})
    raw = wire.new_hdr(5, len(body)) + body
    ctx.count('evaluations')
    try:
        k = pgpy.PGPKey.from_blob(raw)[0]
    except Exception as e:
        ctx.fail('gnu-dummy-key-not-loadable', {'case': d, 'err': repr(e)[:200]})
        return
    if bytes(k) != raw:
        ctx.fail('gnu-dummy-key-reexport-differs', {'case': d, 'raw': hx(raw[-30:]), 'out': hx(bytes(k)[-30:])})
    if str(k.fingerprint) != RK.fpr_of(m).hex().upper():
        ctx.fail('gnu-dummy-fingerprint', {'case': d})
    ctx.count('gnu_dummy_loaded')
    # a stub holds no secret integer at all: nothing may be signed or decrypted with it, whatever passphrase is tried, in both usage
    # octets other producers write; and nothing may overwrite the stub
    from pgpy.constants import SymmetricKeyAlgorithm, HashAlgorithm, KeyFlags
    for usage in ((254, 255) if m['alg'] in (1, 17, 19, 22) else ()):
        body2 = RK.sec_body(m, {'gnu': d['ext'], 'usage': usage, 'serial': bytes(range(16))})
        # a complete key: stub primary + identity certified by the real secret (made elsewhere) so that operations get as far as the secret
        full = pool.pgpy_key(d['key'], fresh=True, uid='stub owner')
        pk = wire.split(bytes(full))
        blob = wire.new_hdr(5, len(body2)) + body2 + b''.join(p_.raw for p_ in pk[1:])
        try:
            ks = pgpy.PGPKey.from_blob(blob)[0]
        except Exception as e:
            ctx.fail('gnu-dummy-key-not-loadable', {'case': d, 'usage': usage, 'err': repr(e)[:200], 'with_identity': True})
            continue
        if ks.is_unlocked or not ks.is_protected:
            ctx.fail('key-without-secret-material-reports-usable', {'case': d, 'usage': usage, 'is_protected': ks.is_protected, 'is_unlocked': ks.is_unlocked})
        ops = [('sign', lambda: ks.sign('doc')), ('certify', lambda: ks.certify(ks.userids[0])), ('revoke', lambda: ks.revoke(ks))]
        for pw in (None, '', 'anything'):
            for name, f in ops:
                ctx.count('evaluations')
                ctx.count('stub_operations_tried')
                try:
                    if pw is None:
                        r_ = f()
                    else:
                        with ks.unlock(pw):
                            r_ = f()
                    ctx.fail('operation-performed-with-a-key-that-has-no-secret-material', {'case': d, 'usage': usage, 'op': name, 'passphrase': pw, 'result': repr(r_)[:60]})
                except Exception:
                    ctx.count('stub_operations_refused')
        before = bytes(ks)
        try:
            ks.protect('new pw', SymmetricKeyAlgorithm.AES128, HashAlgorithm.SHA1)
        except Exception:
            pass
        if bytes(ks) != before:
            ctx.fail('stub-overwritten-by-protect', {'case': d, 'usage': usage})
    ctx.nontrivial(d)


def _history(ctx, d, pgpy):
    from pgpy.constants import SymmetricKeyAlgorithm, HashAlgorithm
    from pgpy.errors import PGPDecryptionError, PGPError
    r = ctx.rng('hist', d['h'], d['seed'])
    names = [d['key'], d['sub']]
    k = pool.pgpy_key(d['key'], sub=d['sub'], fresh=True, uid='history')
    model = {'protected': False, 'pw': None}
    trace = []
    for step in range(d['n']):
        op = r.choice(['protect', 'unlock_right', 'unlock_wrong', 'reprotect_inside', 'export_import', 'copy', 'use_locked', 'unlock_exception'])
        trace.append(op)
        ctx.count('history_steps')
        ctx.count('evaluations')
        where = {'history': d['h'], 'step': step, 'trace': trace[-6:]}
        if op == 'protect':
            if model['protected']:
                # protecting a locked key must warn and change nothing
                before = bytes(k)
                k.protect('other', SymmetricKeyAlgorithm.AES128, HashAlgorithm.SHA1)
                if bytes(k) != before:
                    ctx.fail('protect-on-locked-key-changed-it', where)
            else:
                pw = r.choice(['h1', 'h2 ü'])
                k.protect(pw, getattr(SymmetricKeyAlgorithm, r.choice(PCIPHERS)), getattr(HashAlgorithm, r.choice(PHASHES[:3])))
                model.update(protected=True, pw=pw)
                _ref_recover(ctx, bytes(k), names, pw, where)
        elif op == 'unlock_right' and model['protected']:
            with k.unlock(model['pw']):
                if not k.is_unlocked:
                    ctx.fail('right-passphrase-does-not-unlock', where)
                _use(ctx, pgpy, k, names, where)
        elif op == 'unlock_wrong' and model['protected']:
            try:
                with k.unlock(model['pw'] + '!'):
                    ctx.fail('wrong-passphrase-unlocks', where)
            except PGPDecryptionError:
                ctx.count('wrong_passphrase_rejected')
            # ... and the same inside a scope that was entered with the right one
            try:
                with k.unlock(model['pw']):
                    try:
                        with k.unlock(model['pw'] + '!'):
                            ctx.fail('wrong-passphrase-accepted-while-the-key-is-open', where)
                    except PGPDecryptionError:
                        ctx.count('wrong_passphrase_rejected')
                        ctx.count('wrong_passphrase_rejected_while_open')
            except PGPDecryptionError:
                ctx.fail('right-passphrase-does-not-unlock', where)
        elif op == 'reprotect_inside' and model['protected']:
            # change-passphrase flow; half of the time the very same passphrase (and often the same cipher) is used again
            pw2 = r.choice(['n1', 'n2 日', model['pw'], model['pw']])
            with k.unlock(model['pw']):
                k.protect(pw2, getattr(SymmetricKeyAlgorithm, r.choice(PCIPHERS[:3] if pw2 == model['pw'] else PCIPHERS)), HashAlgorithm.SHA256)
            model['pw'] = pw2
            _ref_recover(ctx, bytes(k), names, pw2, where)
        elif op == 'export_import':
            k = pgpy.PGPKey.from_blob(bytes(k) if r.random() < 0.5 else str(k))[0]
        elif op == 'copy':
            k = copy.copy(k)
        elif op == 'unlock_exception' and model['protected']:
            try:
                with k.unlock(model['pw']):
                    raise KeyError('user code fails inside the scope')
            except KeyError:
                pass
        elif op == 'use_locked' and model['protected']:
            pass
        # invariants after every step
        if model['protected']:
            if not k.is_protected:
                ctx.fail('protection-lost', where)
            _check_export_hides(ctx, k, names, where)
            locked_invariants(ctx, k, names, where)
        else:
            if k.is_protected:
                ctx.fail('unexpected-protection', where)
            _use(ctx, pgpy, k, names, where)
    ctx.nontrivial(d)


def _faults(ctx, d, pgpy):
    """raise InjectedFault at the k-th pgpy line executed inside the unlock scope (or inside unlock() itself), for every k of this part"""
    name = d['key']
    m = pool.mat(name)
    signing = d['op'] == 'sign'
    primary = name if signing else 'ed25519_2'
    # reference-protected key (small S2K count: each unlock is cheap) with an identity added once
    base = pool.pgpy_key(primary, sub=None if signing else name, sub_usage=None, fresh=True, uid='faults')
    names = [primary] if signing else [primary, name]
    pwd = 'fault pass'
    # protect through the reference encoder so that unlock costs microseconds, not 0.13 s
    pk = wire.split(bytes(base))
    newblob = b''
    for p in pk:
        if p.tag in (5, 7):
            mm = pool.mat(primary if p.tag == 5 else name)
            prot = dict(usage=254, cipher=7, s2k=(3, 8, b'faultsal', 0x00), iv=bytes(16), passphrase=pwd.encode())
            body = RK.sec_body(mm, prot)
            newblob += wire.new_hdr(p.tag, len(body)) + body
        else:
            newblob += p.raw
    k = pgpy.PGPKey.from_blob(newblob)[0]
    msg = None
    if not signing:
        lit = encwork.literal_packet(b'fault decrypt', b'b', b'', 0)
        msg = pgpy.PGPMessage.from_blob(encwork.ref_encrypt(lit, 7, bytes(range(16)), [('key', m)]))
    pgpy_dir = os.path.join(REPO, 'pgpy')
    import inspect
    src, first = inspect.getsourcelines(pgpy.PGPKey.unlock.__wrapped__ if hasattr(pgpy.PGPKey.unlock, '__wrapped__') else pgpy.PGPKey.unlock)
    fin = first + [i for i, l in enumerate(src) if l.strip().startswith('finally:')][-1]
    last = first + len(src)

    def exclude(code, lineno):
        # never inside the cleanup itself
        return (code.co_name == 'unlock' and fin <= lineno <= last) or code.co_name == 'clear'

    def run(fp, fire_at):
        fp.reset(fire_at)
        result = None
        try:
            if d['where'] == 'enter':
                fp.armed = True
            with k.unlock(pwd):
                if d['where'] == 'enter':
                    fp.armed = False
                else:
                    fp.armed = True
                if signing:
                    result = k.sign('fault doc')
                else:
                    result = k.decrypt(msg)
                fp.armed = False
        except taps.InjectedFault:
            result = 'fault'
        except Exception:
            # the packet dispatcher re-raises anything (our fault included) as PGPError
            if fp.fired_where is None:
                raise
            result = 'fault'
        finally:
            fp.armed = False
        return result

    with taps.LineFailpoints(pgpy_dir, exclude) as fp:
        r0 = run(fp, None)
        total = fp.count
        if r0 is None or r0 == 'fault' or total < 20:
            ctx.fail('failpoint-dry-run-failed', {'case': d, 'lines': total})
            return
        ctx.count('fault_positions_total', total if d['part'] == 0 else 0)
        locked_invariants(ctx, k, names, 'after clean scope')
        for pos in range(d['part'], total, d['of']):
            res = run(fp, pos)
            where_fired = fp.fired_where
            if res != 'fault':
                ctx.count('fault_not_reached')
                continue
            ctx.count('faults_injected')
            locked_invariants(ctx, k, names, {'case': d, 'fault_at_line_event': pos, 'where': where_fired})
        # the key must still work afterwards
        r1 = run(fp, None)
        if r1 is None or r1 == 'fault':
            ctx.fail('key-unusable-after-fault-sweep', {'case': d})
    ctx.nontrivial(d)
    if len(ctx.samples) < 4:
        ctx.sample({'case': d, 'line_events_in_scope': total})
