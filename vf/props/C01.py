"""C01 -- signature soundness: verification never accepts what was not signed.

Fault-injection monitor over triples (key, subject, signature) of known provenance (made by PGPy's signing APIs and by the reference
signer).  Every mutant of subject, signature packet or key is classified by the independent verifier (vf.ref.sig) from exported octets:
only mutants the reference confirms to be *semantic* (the reference rejects them; encoding-equivalent ones are filtered out) are asserted.
Expected outcome of a semantic mutant under PGPKey.verify: falsy or an exception -- never truthy.
"""
import copy
import warnings
from datetime import datetime, timezone, timedelta

from ..core import hx, time_limit, Stalled
from ..ref import wire, keys as RK, sig as RS, grammar
from .. import pool, sigwork
from . import C02

LEVEL = 'exploration'
RULE = ('case = (base triple: signer algorithm x signature kind x hash x producer) x mutation class; one evaluation per mutant handed to '
        'PGPKey.verify; a mutant is asserted only if the reference verifier rejects the mutated triple (semantic); non-trivial base = baseline '
        'verified true and >= 1 semantic mutant was produced; distinct = distinct (base, mutation class, part) descriptors')
ASSUMPTIONS = ['vf.ref.sig decides whether a mutant is semantic (validated on fixtures and against gpg in C02)', 'cryptography/OpenSSL primitives',
               'forgery across a 64-bit key-id collision is not attempted']
MIN_COUNTERS = {'quick': {'multi_subpacket_attribute_edits': 30, 'embedded_back_signature_edits': 150, 'semantic_mutants': 20000, 'baseline_true': 60, 'sig_bitflips': 10000, 'subject_mutants': 2000, 'key_mutants': 300,
                          'wrong_verifier': 20, 'type_confusion': 200, 'carrier_mutants': 2000, 'message_content_edits': 300, 'several_signature_subjects': 90, 'copies_of_altered_signatures': 2000, 'secret_form_subject_mutants': 300, 'cleartext_text_edits': 250},
                'thorough': {'semantic_mutants': 100000, 'baseline_true': 200}}
BUDGET = {'quick': (600, 1500), 'thorough': (1800, 3600)}
TECHNIQUE = 'runtime monitoring: data-fault injection (bit flips, edits, type confusion, wrong verifier) with an independent-verifier oracle that filters equivalent mutants'

SAME_ALG = {'ed25519_0': 'ed25519_2', 'rsa1024_0': 'rsa1024_2', 'rsa2048_0': 'rsa2048_2', 'dsa1024_0': 'dsa1024_2', 'dsa2048_0': 'dsa2048_2',
            'ecdsa_p256_0': 'ecdsa_p256_2', 'ecdsa_p384_0': 'ecdsa_p384_2', 'ecdsa_p521_0': 'ecdsa_p521_2', 'ecdsa_k256_0': 'ecdsa_k256_2'}


def cases(tier, seed):
    import random
    r = random.Random(seed)
    signers = ['ed25519_0', 'rsa1024_0', 'dsa1024_0', 'ecdsa_p256_0', 'ecdsa_k256_0', 'rsa2048_0', 'dsa2048_0', 'ecdsa_p384_0', 'ecdsa_p521_0']
    hashes = list(sigwork.HASHES)
    cs = []
    i = 0
    per_kind = 2 if tier == 'quick' else len(signers)
    for kind in sigwork.KINDS:
        for j in range(per_kind):
            s = signers[(i + j) % len(signers)] if tier == 'quick' else signers[j]
            h = hashes[(i + j) % len(hashes)]
            base = {'p': 'pgpy', 'signer': s, 'kind': kind, 'hash': h}
            for part in range(2):
                cs.append(dict(base, m='sigflip', part=part, of=2))
            cs.append(dict(base, m='subject'))
            cs.append(dict(base, m='wrongkey'))
            cs.append(dict(base, m='confusion'))
        i += 1
    i = 0
    for typ in (0x00, 0x01, 0x02, 0x40, 0x10, 0x12, 0x13, 0x16, 0x1F, 0x18, 0x20, 0x28, 0x30):
        for j in range(1 if tier == 'quick' else 4):
            s = signers[(i + j) % len(signers)]
            cs.append({'p': 'ref', 'signer': s, 'type': typ, 'hash': hashes[(i + j) % len(hashes)], 'sub': (i + j) % 4, 'm': 'sigflip', 'part': 0, 'of': 1})
            cs.append({'p': 'ref', 'signer': s, 'type': typ, 'hash': hashes[(i + j) % len(hashes)], 'sub': (i + j) % 4, 'm': 'confusion'})
        i += 1
    for s in (['ed25519_0', 'ecdsa_p256_0', 'rsa1024_0'] if tier == 'quick' else signers):
        for part in range(4):
            cs.append({'m': 'keycarrier', 'signer': s, 'part': part, 'of': 4, 'stride': 3 if tier == 'quick' else 1})
        for part in range(2):
            cs.append({'m': 'msgcarrier', 'signer': s, 'part': part, 'of': 2, 'n': 2})
    return cs


def ref_verdict(sigbytes, signer_mat, refsubj):
    """'valid' | 'invalid' | 'malformed' for the (possibly mutated) signature over refsubj; the left-16 quick-check is not part of it"""
    try:
        pk = wire.split(sigbytes)
        if len(pk) < 1 or pk[0].tag != 2:
            return 'malformed'
        s = RS.parse_sig(pk[0].body, strict=False)
        data = RS.hash_input(s, **refsubj)
    except (wire.Malformed, ValueError, TypeError, IndexError, KeyError):
        return 'malformed'
    s = dict(s)
    s['left16'] = RS.digest(s['halg'], data)[:2] if s['halg'] in RS.HASHNAME else s['left16']
    ok, why = RS.verify(s, signer_mat, data)
    return 'valid' if ok else 'invalid'


def base_triple(d):
    """-> (key, subject, sig PGPSignature, sigbytes, refsubj, signer material, keepalive)"""
    import pgpy
    if d['p'] == 'pgpy':
        t = sigwork.pgpy_triple(d['signer'], d['kind'], d['hash'])
        subj = t.subject
        if t.carrier != 'detached':
            # detached presentation of the same signature: the document is the message content
            subj = t.subject.message
        return t.key, subj, t.sig, bytes(t.sig), t.refsubj, t.signer, t
    raw, pub, subj, rs, sm, keep = C02.ref_sign_case(d)
    return pub, subj, pgpy.PGPSignature.from_blob(raw), raw, rs, sm, keep


def judge(ctx, klass, result, what, d, extra):
    """klass: reference classification of the mutant; result: outcome string of pgpy_verify"""
    ctx.count('evaluations')
    if klass == 'valid':
        ctx.count('equivalent_mutants')
        return
    if klass == 'malformed':
        ctx.count('malformed_mutants')
        if result == 'true':
            ctx.observe('framing_mutant_accepted_hashed_data_unchanged')
        return
    ctx.count('semantic_mutants')
    ctx.outcome('%s:%s' % (what.split(':')[0], result if not result.startswith('error') else 'error'))
    if result == 'true':
        ctx.fail('semantic-mutant-verified-true', dict({'base': d, 'mutation': what}, **extra))


def load_sig(pgpy, raw):
    try:
        with warnings.catch_warnings():
            warnings.simplefilter('ignore')
            with time_limit(10):
                s = pgpy.PGPSignature.from_blob(bytes(raw))
        if s._signature is None:
            return None
        return s
    except Stalled:
        return None
    except Exception:
        return None


def run_case(ctx, d):
    import pgpy
    with warnings.catch_warnings():
        warnings.simplefilter('ignore')
        if d['m'] == 'keycarrier':
            return _keycarrier(ctx, d, pgpy)
        if d['m'] == 'msgcarrier':
            return _msgcarrier(ctx, d, pgpy)
        key, subj, sig, sigbytes, refsubj, sm, keep = base_triple(d)
        r0, _ = sigwork.pgpy_verify(key, subj, sig)
        if r0 == 'true' and ref_verdict(sigbytes, sm, refsubj) != 'valid' and d['m'] == 'subject':
            # PGPy accepts a triple the reference does not (a conformance matter for C02).  Soundness can still be probed without the
            # reference: mutants that change the signed subject beyond doubt (document octets, user id octets, key material that differs
            # after canonical re-encoding) must stop verifying whatever PGPy hashes.
            ctx.count('baseline_pgpy_only')
            _subject(ctx, d, pgpy, key, subj, sig, sigbytes, refsubj, sm, pgpy_only=True)
            return
        if r0 != 'true' or ref_verdict(sigbytes, sm, refsubj) != 'valid':
            ctx.count('baseline_false')   # judged by C02, not here
            return
        ctx.count('baseline_true')
        before = ctx.counters['semantic_mutants']
        getattr(__import__(__name__, fromlist=['x']), '_' + d['m'])(ctx, d, pgpy, key, subj, sig, sigbytes, refsubj, sm)
        if ctx.counters['semantic_mutants'] > before:
            ctx.nontrivial(d)
        if len(ctx.samples) < 4:
            ctx.sample({'base': d, 'signature': hx(sigbytes)[:120], 'semantic_mutants_in_case': ctx.counters['semantic_mutants'] - before})


def _sigflip(ctx, d, pgpy, key, subj, sig, sigbytes, refsubj, sm):
    n = len(sigbytes) * 8
    if n <= 1400:
        bits = range(n)
    else:
        r = ctx.rng('sigflip', d)
        head = min(n, 8 * 90)
        bits = list(range(head)) + sorted(r.sample(range(head, n), min(n - head, 500)))
    for b in bits:
        if b % d['of'] != d['part']:
            continue
        m = bytearray(sigbytes)
        m[b // 8] ^= 0x80 >> (b % 8)
        klass = ref_verdict(bytes(m), sm, refsubj)
        ctx.count('sig_bitflips')
        s2 = load_sig(pgpy, m)
        if s2 is None:
            res = 'error:load'
        else:
            try:
                with time_limit(10):
                    res, _ = sigwork.pgpy_verify(key, subj, s2)
            except Stalled:
                res = 'error:stalled'
        judge(ctx, klass, res, 'signature-bit-flip', d, {'bit': b, 'region': _region(sigbytes, b // 8), 'mutated_sig': hx(m)})
        if s2 is not None and klass == 'invalid' and b % 3 == 0:
            # a copy of the altered signature is the same altered signature (public twins, copied keys and messages hold such copies)
            try:
                with time_limit(10):
                    cres, _ = sigwork.pgpy_verify(key, subj, copy.copy(s2))
                    ccres, _ = sigwork.pgpy_verify(key, subj, copy.copy(copy.copy(s2)))
            except Stalled:
                cres = ccres = 'error:stalled'
            ctx.count('copies_of_altered_signatures')
            judge(ctx, klass, cres, 'copy-of-signature-bit-flip', d, {'bit': b, 'region': _region(sigbytes, b // 8), 'mutated_sig': hx(m)})
            judge(ctx, klass, ccres, 'copy-of-copy-of-signature-bit-flip', d, {'bit': b, 'mutated_sig': hx(m)})
    # structural edits of the packet: other sigtypes / algorithm ids / hash ids, r<->s swap, subpacket deletion/duplication/reorder
    pk = wire.split(sigbytes)[0]
    body = pk.body
    s = RS.parse_sig(body, strict=False)
    edits = []
    for t in (0x00, 0x01, 0x02, 0x10, 0x11, 0x12, 0x13, 0x16, 0x18, 0x19, 0x1F, 0x20, 0x28, 0x30, 0x40, 0x50):
        if t != body[1]:
            edits.append(('sigtype->0x%02x' % t, body[:1] + bytes([t]) + body[2:]))
    for a in (1, 2, 3, 16, 17, 18, 19, 22):
        if a != body[2]:
            edits.append(('pubalg->%d' % a, body[:2] + bytes([a]) + body[3:]))
    for h in (1, 2, 3, 8, 9, 10, 11):
        if h != body[3]:
            edits.append(('hash->%d' % h, body[:3] + bytes([h]) + body[4:]))
    hs = s['hsp']
    tail = body[6 + len(s['hashed']):]

    def rebuild(sps):
        area = b''.join(raw for _, _, _, raw in sps)
        return body[:4] + len(area).to_bytes(2, 'big') + area + tail
    for i in range(len(hs)):
        edits.append(('delete-hashed-subpacket-%d' % hs[i][0], rebuild(hs[:i] + hs[i + 1:])))
        edits.append(('duplicate-hashed-subpacket-%d' % hs[i][0], rebuild(hs[:i + 1] + hs[i:])))
        t, c, b, raw = hs[i]
        edits.append(('toggle-critical-%d' % t, rebuild(hs[:i] + [(t, not c, b, wire.subpacket(t, b, critical=not c))] + hs[i + 1:])))
    if len(hs) > 1:
        edits.append(('reverse-hashed-subpackets', rebuild(hs[::-1])))
    edits.append(('add-hashed-subpacket', rebuild(hs + [(26, False, b'x', wire.subpacket(26, b'x'))])))
    if s['mpis'] and len(s['mpis']) == 2:
        edits.append(('swap-r-s', body[:s['mpi_offset']] + wire.mpi_enc(s['mpis'][1]) + wire.mpi_enc(s['mpis'][0])))
    if s['mpis']:
        for k in range(len(s['mpis'])):
            for dv in (1, -1):
                mp = list(s['mpis'])
                mp[k] = max(0, mp[k] + dv)
                edits.append(('mpi%d%+d' % (k, dv), body[:s['mpi_offset']] + b''.join(wire.mpi_enc(x) for x in mp)))
    if s['mpis']:
        # the same integers plus a multiple of 2**W (W = the algorithm's native width): a longer, different integer whose low octets are the genuine ones
        widths = [256] if body[2] == 22 else sorted({8 * ((max(x.bit_length() for x in s['mpis']) + 7) // 8) + e for e in (0, 8)})
        for k in range(len(s['mpis'])):
            for W in widths:
                for mul in (1, 0x55, 0xABCDEF):
                    mp = list(s['mpis'])
                    mp[k] = mp[k] + (mul << W)
                    edits.append(('mpi%d+%#x<<%d' % (k, mul, W), body[:s['mpi_offset']] + b''.join(wire.mpi_enc(x) for x in mp)))
    if d['part'] == 0:
        for name, nb in edits:
            raw = wire.new_hdr(2, len(nb)) + nb
            klass = ref_verdict(raw, sm, refsubj)
            ctx.count('sig_structural_edits')
            s2 = load_sig(pgpy, raw)
            res = 'error:load' if s2 is None else sigwork.pgpy_verify(key, subj, s2)[0]
            judge(ctx, klass, res, 'signature-edit:' + name, d, {'mutated_sig': hx(raw)})


def _region(sigbytes, off):
    try:
        pk = wire.split(sigbytes)[0]
        h = len(sigbytes) - len(pk.body)
        s = RS.parse_sig(pk.body, strict=False)
        o = off - h
        if o < 0:
            return 'packet-header'
        if o < 4:
            return ['version', 'sigtype', 'pubalg', 'hashalg'][o]
        if o < 6 + len(s['hashed']):
            return 'hashed-area'
        if o < 8 + len(s['hashed']) + len(s['unhashed']):
            return 'unhashed-area'
        if o < s['mpi_offset']:
            return 'left16'
        return 'signature-mpis'
    except Exception:
        return '?'


def _mut_bytes(r, b, n):
    """n mutants of a byte string: bit flips, insert, delete, truncate, append"""
    b = bytes(b)
    out = []
    nb = len(b) * 8
    if nb:
        for bit in (range(nb) if nb <= 400 else sorted(r.sample(range(nb), min(nb, n)))):
            m = bytearray(b)
            m[bit // 8] ^= 0x80 >> (bit % 8)
            out.append(('flip%d' % bit, bytes(m)))
    out.append(('append0', b + b'\x00'))
    out.append(('appendA', b + b'A'))
    out.append(('prepend', b'\n' + b))
    if b:
        out.append(('truncate', b[:-1]))
        out.append(('drop-first', b[1:]))
        out.append(('swapcase', b.swapcase()))
        mid = len(b) // 2
        out.append(('delete-mid', b[:mid] + b[mid + 1:]))
        out.append(('dup-mid', b[:mid] + b[mid:mid + 1] + b[mid:]))
    out.append(('empty', b''))
    return [(n_, m) for n_, m in out if m != b]


def _subject(ctx, d, pgpy, key, subj, sig, sigbytes, refsubj, sm, pgpy_only=False):
    r = ctx.rng('subject', d)
    if 'doc' in refsubj:
        doc = refsubj['doc']
        text = isinstance(subj, str)
        for name, m in _mut_bytes(r, doc, 300):
            rs = dict(refsubj, doc=m)
            if text:
                try:
                    ms = m.decode('utf-8')
                except UnicodeDecodeError:
                    continue
            else:
                ms = m
            ctx.count('subject_mutants')
            res, _ = sigwork.pgpy_verify(key, ms, sig)
            klass = ref_verdict(sigbytes, sm, rs)
            if pgpy_only:
                styp = wire.split(sigbytes)[0].body[1]
                klass = 'invalid' if styp == 0x00 else 'valid'
            judge(ctx, klass, res, 'document-' + name.rstrip('0123456789'), d, {'doc': hx(m)[:200]})
        return
    if not refsubj:
        return   # no subject: covered by confusion
    # structured subjects: mutate the exported packet octets of the subject component and re-import
    owner = subj._parent if isinstance(subj, pgpy.PGPUID) else (subj if subj.is_primary else subj._parent)
    _structured_subject(ctx, d, pgpy, key, sig, sigbytes, refsubj, sm, pgpy_only, r, owner, False)
    # the same subject held in secret form (the owner's private key): what is hashed is still its public part
    for cand in (sigwork.signer_key(d['signer']) if 'signer' in d else None, sigwork.target_key()):
        if cand is not None and str(cand.fingerprint) == str(owner.fingerprint) and d.get('p') == 'pgpy':
            _structured_subject(ctx, d, pgpy, key, sig, sigbytes, refsubj, sm, pgpy_only, r, cand, True)
            break


def _structured_subject(ctx, d, pgpy, key, sig, sigbytes, refsubj, sm, pgpy_only, r, owner, secret_form):
    blob = bytes(owner)
    pkts = wire.split(blob)
    if 'uid' in refsubj or 'ua' in refsubj:
        want = refsubj.get('uid', refsubj.get('ua'))
        idx = [i for i, p in enumerate(pkts) if p.tag in (13, 17) and p.body == want][0]
        fields = [('uid' if 'uid' in refsubj else 'ua', idx)]
        fields.append(('primary', 0))
    elif 'subkey' in refsubj:
        idx = [i for i, p in enumerate(pkts) if p.tag in (14, 7) and RK.parse_pub(p.body)['pubbody'] == refsubj['subkey']]
        if not idx:
            # this candidate owner does not carry the subject subkey (kinds that build their own key): nothing to present in this form
            ctx.observe('structured_subject_owner_without_the_subkey')
            return
        idx = idx[0]
        fields = [('subkey', idx), ('primary', 0)]
    else:
        fields = [('primary', 0)]
    for fname, idx in fields:
        body = pkts[idx].body
        tail_secret = b''
        if secret_form and fname in ('primary', 'subkey'):
            # only the public part of a secret key packet is altered; the secret part stays as it is
            publen = RK.parse_pub(body)['publen']
            body, tail_secret = body[:publen], body[publen:]
        elif secret_form:
            continue        # user ids / attributes are the same packets in both forms
        muts = [(n_, m_ + tail_secret) for n_, m_ in _mut_bytes(r, body, 60 if secret_form else (160 if fname != 'ua' else 80))]
        if fname in ('primary', 'subkey') and len(body) > 6 and body[5] == 18:
            # ECDH: the last four octets of the public part are 03 01 <KDF hash> <KEK cipher>; every other legal parameter pair is other key material
            for hh, cc in ((8, 7), (9, 8), (10, 9), (8, 9), (10, 7), (9, 7)):
                if (hh, cc) != (body[-2], body[-1]):
                    muts.append(('ecdh-kdf-parameters', body[:-2] + bytes([hh, cc]) + tail_secret))
        body = body + tail_secret
        if secret_form:
            ctx.count('secret_form_subject_mutants', len(muts))
        if fname == 'uid':
            import unicodedata
            try:
                u = body.decode('utf-8')
                for form in ('NFD', 'NFKC'):
                    v = unicodedata.normalize(form, u).encode('utf-8')
                    if v != body:
                        muts.append((form, v))
            except UnicodeDecodeError:
                pass
        for name, mb in muts:
            tag = pkts[idx].tag
            newblob = b''.join(p.raw if i != idx else wire.new_hdr(tag, len(mb)) + mb for i, p in enumerate(pkts))
            try:
                with time_limit(10):
                    k2 = pgpy.PGPKey.from_blob(newblob)[0]
                if fname in ('uid', 'ua') or (fname == 'primary' and ('uid' in refsubj or 'ua' in refsubj)):
                    comps = k2.userids if 'uid' in refsubj else k2.userattributes
                    pos = [i for i, p in enumerate([q for q in pkts if q.tag == (13 if 'uid' in refsubj else 17)]) if p.body == want]
                    s2 = None
                    # SorteDeque may reorder: pick by content
                    target = mb if fname in ('uid', 'ua') else want
                    for c in comps:
                        if bytes(c.hashdata) == target:
                            s2 = c
                    if s2 is None:
                        ctx.count('mutant_unloadable')
                        continue
                    rs = dict(refsubj)
                    rs['uid' if 'uid' in refsubj else 'ua'] = target
                    rs['primary'] = RK.canonical_pubbody(mb) if fname == 'primary' else refsubj['primary']
                elif fname == 'subkey':
                    sks = list(k2.subkeys.values())
                    if len(sks) != len(owner.subkeys):
                        ctx.count('mutant_unloadable')
                        continue
                    order = [i for i, p in enumerate(pkts) if p.tag in (14, 7)]
                    s2 = sks[order.index(idx)]
                    rs = dict(refsubj, subkey=RK.canonical_pubbody(mb))
                else:
                    if 'subkey' in refsubj:
                        sks = list(k2.subkeys.values())
                        order = [i for i, p in enumerate(pkts) if p.tag in (14, 7)]
                        sidx = [i for i in order if RK.parse_pub(pkts[i].body)['pubbody'] == refsubj['subkey']][0]
                        s2 = sks[order.index(sidx)]
                    else:
                        s2 = k2
                    rs = dict(refsubj, primary=RK.canonical_pubbody(mb))
                klass = ref_verdict(sigbytes, sm, rs)
                if pgpy_only:
                    # semantic beyond doubt: user id / attribute octets changed, or key material that differs after canonical re-encoding
                    if fname in ('uid', 'ua'):
                        klass = 'invalid'
                    else:
                        klass = 'invalid' if RK.canonical_pubbody(mb) != RK.canonical_pubbody(body) else 'valid'
            except (wire.Malformed, Stalled, Exception) as e:
                ctx.count('mutant_unloadable')
                continue
            ctx.count('subject_mutants')
            if fname in ('primary', 'subkey'):
                ctx.count('key_mutants')
            with time_limit(10):
                res, _ = sigwork.pgpy_verify(key, s2, sig)
            judge(ctx, klass, res, '%s-%s' % (fname, name.rstrip('0123456789')), d, {'mutated_packet': hx(mb)[:160]})


def _rewrite_issuer(sigbytes, newid):
    pk = wire.split(sigbytes)[0]
    s = RS.parse_sig(pk.body, strict=False)
    un = b''.join(wire.subpacket(16, newid) if t == 16 else raw for t, c, b, raw in s['usp'])
    if not any(t == 16 for t, c, b, raw in s['usp']):
        un += wire.subpacket(16, newid)
    body = s['hashed_region'] + len(un).to_bytes(2, 'big') + un + pk.body[s['mpi_offset'] - 2:]
    return wire.new_hdr(2, len(body)) + body


def _wrongkey(ctx, d, pgpy, key, subj, sig, sigbytes, refsubj, sm):
    other_name = SAME_ALG.get(d['signer'])
    if other_name is None:
        return
    other = sigwork.signer_key(other_name)
    opub = other.pubkey
    om = pool.mat(other_name)
    # (a) unrelated key of the same algorithm, issuer rewritten to its id
    raw = _rewrite_issuer(sigbytes, RK.keyid_of(om))
    s2 = load_sig(pgpy, raw)
    ctx.count('wrong_verifier')
    res = 'error:load' if s2 is None else sigwork.pgpy_verify(opub, subj, s2)[0]
    judge(ctx, ref_verdict(raw, om, refsubj), res, 'wrong-verifier-same-algorithm', d, {'verifier': other_name})
    # (b) the wrong component of the right key (its subkey), issuer rewritten
    for comp in key.subkeys.values():
        raw = _rewrite_issuer(sigbytes, bytes.fromhex(comp.fingerprint.keyid))
        s2 = load_sig(pgpy, raw)
        ctx.count('wrong_verifier')
        res = 'error:load' if s2 is None else sigwork.pgpy_verify(key, subj, s2)[0]
        judge(ctx, 'invalid', res, 'wrong-component-of-right-key', d, {'component_algorithm': comp.key_algorithm.name})
        # ... also over subjects that were never signed
        for other_subj in (b'never signed', None):
            res = 'error:load' if s2 is None else sigwork.pgpy_verify(key, other_subj, s2)[0]
            ctx.count('wrong_verifier')
            judge(ctx, 'invalid', res, 'wrong-component-of-right-key-other-subject', d, {'component_algorithm': comp.key_algorithm.name})
    # (c) key material mutated (public integers +-1 / bit flips, creation time, algorithm id), issuer rewritten to the mutated key's id
    blob = bytes(key)
    pkts = wire.split(blob)
    body = pkts[0].body
    r = ctx.rng('wrongkey', d)
    nb = len(body) * 8
    bits = range(nb) if nb <= 600 else sorted(r.sample(range(nb), 240))
    for b in bits:
        mb = bytearray(body)
        mb[b // 8] ^= 0x80 >> (b % 8)
        try:
            pm = RK.parse_pub(bytes(mb))
        except (wire.Malformed, KeyError, IndexError):
            continue
        newblob = wire.new_hdr(6, len(mb)) + bytes(mb) + b''.join(p.raw for p in pkts[1:])
        raw = _rewrite_issuer(sigbytes, RK.fingerprint(pm['pubbody'])[-8:])
        try:
            with time_limit(10):
                k2 = pgpy.PGPKey.from_blob(newblob)[0]
        except Exception:
            ctx.count('mutant_unloadable')
            continue
        rs = dict(refsubj)
        if rs.get('primary') == RK.parse_pub(body)['pubbody']:
            # self-referential subject: the verifier is mutated, the subject stays what was signed
            pass
        try:
            klass = ref_verdict(raw, pm, rs)
        except Exception:
            klass = 'invalid'
        s2 = load_sig(pgpy, raw)
        ctx.count('key_mutants')
        try:
            with time_limit(10):
                res = 'error:load' if s2 is None else sigwork.pgpy_verify(k2, subj, s2)[0]
        except Stalled:
            res = 'error:stalled'
        judge(ctx, klass, res, 'verifying-key-bit-flip', d, {'bit': b, 'mutated_key': hx(mb)[:120]})


COMPAT = {'doc': (0x00, 0x01), 'none': (0x02, 0x40), 'uid': RS.CERT_TYPES, 'ua': RS.CERT_TYPES, 'primary': (0x1F, 0x20), 'subkey': (0x18, 0x28, 0x19)}


def _confusion(ctx, d, pgpy, key, subj, sig, sigbytes, refsubj, sm):
    """the same valid signature presented for subjects of every kind"""
    signer = sigwork.signer_key(d['signer'])
    spub = signer.pubkey
    sprim, suids, ssubs = sigwork.export_view(signer)
    tk = sigwork.target_key()
    tpub = tk.pubkey
    tprim, tuids, tsubs = sigwork.export_view(tk)
    other = sigwork.signer_key(SAME_ALG.get(d['signer'], 'ed25519_2'))
    opub = other.pubkey
    oprim, ouids, osubs = sigwork.export_view(other)
    typ = wire.split(sigbytes)[0].body[1]
    alts = [('doc', b'any document', {'doc': b'any document'}), ('doc', 'any text', {'doc': b'any text'}), ('doc', b'', {'doc': b''}), ('none', None, {})]
    for label, pub_, prim_, uids_, subs_ in (('signer', spub, sprim, suids, ssubs), ('target', tpub, tprim, tuids, tsubs), ('other', opub, oprim, ouids, osubs)):
        for u in pub_.userids:
            alts.append(('uid', u, {'primary': prim_, 'uid': bytes(u.hashdata)}))
        for u in pub_.userattributes:
            alts.append(('ua', u, {'primary': prim_, 'ua': bytes(u.hashdata)}))
        alts.append(('primary', pub_, {'primary': prim_}))
        for i, sk in enumerate(pub_.subkeys.values()):
            alts.append(('subkey', sk, {'primary': prim_, 'subkey': subs_[i]}))
    for kind, s2, rs in alts:
        if rs == refsubj and (kind in ('doc', 'none') or s2 is subj):
            continue
        ctx.count('type_confusion')
        if typ in COMPAT[kind]:
            try:
                klass = ref_verdict(sigbytes, sm, rs)
            except Exception:
                klass = 'invalid'
        else:
            klass = 'invalid'
        if rs == refsubj:
            klass = 'valid'
        res, _ = sigwork.pgpy_verify(key, s2, sig)
        judge(ctx, klass, res, 'type-confusion:0x%02x-presented-for-%s' % (typ, kind), d, {'subject': repr(s2)[:80]})


def _selfcheck_blob(blob):
    """reference: verdict over every self-issued signature of a (mutated) key blob -> (n examined, n invalid) ; raises on framing errors"""
    from ..oracle_selftest import verify_key_blob
    st = {}
    verify_key_blob(blob, st, canonical=True, ignore_left16=True)
    return st.get('verified', 0) + st.get('rejected', 0), st.get('rejected', 0), dict(st.get('per_sig', []))


def _keycarrier(ctx, d, pgpy):
    """certifications carried inside keys: flip bits of the exported key, re-import, verify(key) with itself"""
    k = sigwork.signer_key(d['signer'])
    blob = bytes(k.pubkey)
    nb = len(blob) * 8
    ctx.count('baseline_true')
    n = 0
    for b in range(d['part'] * d['stride'], nb, d['of'] * d['stride']):
        m = bytearray(blob)
        m[b // 8] ^= 0x80 >> (b % 8)
        try:
            ex, bad, per = _selfcheck_blob(bytes(m))
            klass = 'invalid' if bad else 'valid'
        except Exception:
            klass, per = 'malformed', {}
        ctx.count('carrier_mutants')
        sv = None
        try:
            with time_limit(10):
                k2 = pgpy.PGPKey.from_blob(bytes(m))[0]
                res, sv = sigwork.pgpy_verify(k2, k2)
        except Stalled:
            res = 'error:stalled'
        except Exception:
            res = 'error:load'
        if klass == 'invalid' and res == 'true':
            # judged per signature: a signature PGPy lists as good must be one the reference accepts over the mutated blob
            # (a mutation can also make PGPy not examine a signature at all, which is not an acceptance)
            accepted_invalid = 0
            for e in sv.good_signatures:
                try:
                    ps = RS.parse_sig(wire.split(bytes(e.signature))[0].body, strict=False) if not e.signature.embedded else \
                        RS.parse_sig(bytes(e.signature._signature.__bytearray__()), strict=False)
                    key_ = (ps['hashed_region'], tuple(ps['mpis'] or ()))
                except Exception:
                    continue
                if per.get(key_) is False:
                    accepted_invalid += 1
            if not accepted_invalid:
                ctx.count('carrier_mutant_signature_not_examined')
                klass = 'valid'
        judge(ctx, klass, res, 'key-carrier-bit-flip', d, {'bit': b, 'offset': b // 8})
        n += 1
    if d['part'] == 0:
        _backsig_edits(ctx, d, pgpy, k, blob)
        _multi_attribute(ctx, d, pgpy, k, blob)
    ctx.nontrivial(d)


def _multi_attribute(ctx, d, pgpy, k, blob):
    """a user attribute made of SEVERAL subpackets (two images and one of a type nobody knows; written and certified by the reference, since PGPy's
    API builds single-image attributes only): the certification covers all of them, so an edit of any one - first, middle or last - must not verify"""
    sm = pool.mat(d['signer'])
    pk = wire.split(blob)
    prim_pub = RK.parse_pub(pk[0].body)['pubbody']
    img = lambda n: b'\x10\x00\x01\x01' + bytes(12) + sigwork.JPEG[:-2] + bytes([n]) * 3 + b'\xff\xd9'
    parts = [wire.subpacket(1, img(1)), wire.subpacket(100, b'attribute subpacket of a private type'), wire.subpacket(1, img(2), lenform=5)]
    ua = b''.join(parts)
    hashed = wire.subpacket(2, (1500000500).to_bytes(4, 'big')) + wire.subpacket(33, b'\x04' + RK.fpr_of(sm))
    try:
        sigbody = RS.sign(sm, 0x13, 8, hashed, wire.subpacket(16, RK.fpr_of(sm)[-8:]), primary=prim_pub, ua=ua)
    except Exception as e:
        ctx.observe('multi_attribute_not_signable:' + type(e).__name__)
        return
    sigpkt = wire.new_hdr(2, len(sigbody)) + sigbody

    def keyblob(uabody):
        return blob + wire.new_hdr(17, len(uabody)) + uabody + sigpkt

    def outcome(uabody):
        k2 = pgpy.PGPKey.from_blob(keyblob(uabody))[0]
        uao = [u for u in k2.userattributes if bytes(u._uid.__bytearray__())[-len(uabody):] == uabody or True][-1]
        s_ = [x for x in uao.__sig__ if bytes(x._signature.__bytearray__()) == sigbody or bytes(x)[-len(sigbody):] == sigbody]
        if not s_:
            return 'error:signature-not-attached', 'error:signature-not-attached'
        r1, _ = sigwork.pgpy_verify(k.pubkey, uao, s_[0])
        r2, _ = sigwork.pgpy_verify(k2, k2)
        return r1, r2
    try:
        base1, base2 = outcome(ua)
    except Exception as e:
        ctx.observe('multi_attribute_not_loadable:' + type(e).__name__)
        return
    if base1 != 'true':
        ctx.fail('reference-made-certification-over-several-attribute-subpackets-rejected', {'base': d, 'result': base1})
        return
    ctx.count('baseline_true')
    muts = []
    offs = [0, len(parts[0]), len(parts[0]) + len(parts[1])]
    for pi, (o, prt) in enumerate(zip(offs, parts)):
        hl = len(prt) - (len(img(1)) + 1 if pi != 1 else len(b'attribute subpacket of a private type') + 1)
        for q in (hl + 1, hl + 20, len(prt) - 4):          # inside the body of that subpacket (never its length or type octet)
            m = bytearray(ua)
            m[o + q] ^= 0x10
            muts.append(('attribute-subpacket-%d-of-3-edited' % (pi + 1), bytes(m)))
    muts.append(('first-image-replaced', wire.subpacket(1, img(9)) + parts[1] + parts[2]))
    muts.append(('last-image-replaced', parts[0] + parts[1] + wire.subpacket(1, img(9), lenform=5)))
    muts.append(('first-subpacket-removed', parts[1] + parts[2]))
    muts.append(('only-the-last-subpacket-kept', parts[2]))
    muts.append(('subpackets-reordered', parts[2] + parts[1] + parts[0]))
    for what, mb in muts:
        ctx.count('multi_subpacket_attribute_edits')
        try:
            with time_limit(10):
                r1, r2 = outcome(mb)
        except Stalled:
            r1 = r2 = 'error:stalled'
        except Exception:
            r1 = r2 = 'error:load'
        judge(ctx, 'invalid', r1, what, d, {'verifier': 'genuine key over the altered attribute'})
        judge(ctx, 'invalid', r2, what, d, {'verifier': 'the key that carries it'})


def _backsig_edits(ctx, d, pgpy, k, blob):
    """the primary-key binding signature (0x19) that a signing subkey's binding carries in its UNSIGNED area: altered in its signature integers or in
    what it signs, or replaced by one made by another key / for another primary.  Nothing else of the key changes (the outer binding still verifies),
    so every signature is examined exactly as before - and verify(key) must not be truthy."""
    pk = wire.split(blob)
    prim_pub = RK.parse_pub(pk[0].body)['pubbody']
    target = None
    for i, p in enumerate(pk):
        if p.tag == 2 and p.body[1] == 0x18:
            ps = RS.parse_sig(p.body)
            emb = [b for t, c, b, raw in ps['usp'] if t == 32]
            if emb:
                subp = next(q for q in reversed(pk[:i]) if q.tag == 14)
                target = (i, p, ps, emb[0], subp)
                break
    if target is None:
        ctx.observe('no_embedded_back_signature_in_unsigned_area')
        return
    i, p, ps, emb, subp = target
    sub_pub = RK.parse_pub(subp.body)['pubbody']
    off = blob.find(emb)
    if off < 0 or blob.find(emb, off + 1) >= 0:
        return
    es = RS.parse_sig(emb)
    muts = []
    # (a) single-bit flips inside the embedded signature: integers (not their length prefixes) and signed area
    mo = es['mpi_offset']
    pos = []
    j = mo
    while j + 2 <= len(emb):
        n_ = (int.from_bytes(emb[j:j + 2], 'big') + 7) // 8
        pos += list(range(j + 2, j + 2 + n_))
        j += 2 + n_
    pos = pos[::max(1, len(pos) // 24)] + list(range(6, 6 + min(len(es['hashed']), 12)))
    for q in pos:
        for bit in (0x01, 0x20):
            m = bytearray(blob)
            m[off + q] ^= bit
            muts.append(('embedded-back-signature-bit-flip', {'offset_in_embedded': q, 'bit': bit}, bytes(m)))

    def rebuilt(newemb):
        usp = b''.join(raw if t != 32 else wire.subpacket(32, newemb) for t, c, b, raw in ps['usp'])
        hl = len(ps['hashed'])
        body = p.body[:6 + hl] + len(usp).to_bytes(2, 'big') + usp + p.body[ps['mpi_offset'] - 2:]
        return b''.join(q.raw for q in pk[:i]) + wire.new_hdr(2, len(body)) + body + b''.join(q.raw for q in pk[i + 1:])
    # (b) a well-formed, cryptographically correct 0x19 made by ANOTHER key (naming itself, or naming the subkey), and one made by the right
    # subkey over another primary key
    sm = pool.mat('ed25519_1' if d['signer'] != 'ed25519_1' else 'ed25519_2')
    om = pool.mat('ed25519_3')
    oprim = RK.pub_body(pool.mat('ecdsa_p256_1'))
    ts = es['hashed']
    for label, key_, named, prim in (('made-by-another-key', om, om, prim_pub), ('made-by-another-key-naming-the-subkey', om, sm, prim_pub), ('made-for-another-primary', sm, sm, oprim)):
        unh = wire.subpacket(16, RK.fpr_of(named)[-8:])
        try:
            ne = RS.sign(key_, 0x19, 8, ts, unh, primary=prim, subkey=sub_pub)
        except Exception:
            continue
        muts.append(('embedded-back-signature-' + label, {}, rebuilt(ne)))
    for what, extra, mb in muts:
        try:
            ex, bad, per = _selfcheck_blob(mb)
        except Exception:
            ctx.count('malformed_mutants')
            continue
        if not bad:
            ctx.observe('embedded_edit_not_rejected_by_reference:' + what)
            continue
        ctx.count('embedded_back_signature_edits')
        try:
            with time_limit(10):
                k2 = pgpy.PGPKey.from_blob(mb)[0]
                res, sv = sigwork.pgpy_verify(k2, k2)
                res_b, _ = sigwork.pgpy_verify(k.pubkey, k2)
        except Stalled:
            res = res_b = 'error:stalled'
        except Exception:
            res = res_b = 'error:load'
        judge(ctx, 'invalid', res, what, d, dict(extra, verifier='the altered key itself'))
        judge(ctx, 'invalid', res_b, what, d, dict(extra, verifier='the genuine key'))


def _msgcarrier(ctx, d, pgpy):
    """signatures carried inside messages (one-pass signed literal): flip bits of the export, re-import, verify(message)"""
    from pgpy.constants import CompressionAlgorithm
    k = sigwork.signer_key(d['signer'])
    sm = pool.mat(d['signer'])
    pub = k.pubkey
    m = pgpy.PGPMessage.new(b'carrier message \x00\xff body', compression=CompressionAlgorithm.Uncompressed, format='b')
    m |= k.sign(m)
    blob = bytes(m)
    ctx.count('baseline_true')
    nb = len(blob) * 8
    for b in range(d['part'], nb, d['of']):
        mm = bytearray(blob)
        mm[b // 8] ^= 0x80 >> (b % 8)
        # reference: literal data + trailing signature
        try:
            pk = wire.split(bytes(mm))
            lit = [p for p in pk if p.tag == 11]
            sg = [p for p in pk if p.tag == 2]
            if len(lit) != 1 or len(sg) != 1:
                klass = 'malformed'
            else:
                klass = ref_verdict(sg[0].raw, sm, {'doc': grammar.literal_fields(lit[0].body)['data']})
        except Exception:
            klass = 'malformed'
        ctx.count('carrier_mutants')
        try:
            with time_limit(10):
                m2 = pgpy.PGPMessage.from_blob(bytes(mm))
                res, _ = sigwork.pgpy_verify(pub, m2)
        except Stalled:
            res = 'error:stalled'
        except Exception:
            res = 'error:load'
        judge(ctx, klass, res, 'message-carrier-bit-flip', d, {'bit': b})
    if d['part'] == 0:
        _msg_content_edits(ctx, d, pgpy, k, sm, pub)
        _msg_several_signatures(ctx, d, pgpy, k, pub)
        _cleartext_edits(ctx, d, pgpy, k, sm, pub)
    ctx.nontrivial(d)


def _cleartext_edits(ctx, d, pgpy, k, sm, pub):
    """a cleartext signed message whose text is edited while the signature block stays: only what the framework itself discounts (trailing
    spaces and tabs, the form of the line endings, dash escaping) may be changed without the signature failing - judged by the reference"""
    from ..ref import armor
    text = 'first line\n- dashed line\nthird  line with inner blanks\n\nlast line'
    m = pgpy.PGPMessage.new(text, cleartext=True)
    m |= k.sign(m)
    d0 = armor.dearmor(str(m))
    sigpkt = wire.split(d0['data'])[0]
    hname = sorted(d0.get('hashes') or ['SHA256'])[0] if d0.get('hashes') else None
    header = str(m).split('\n\n', 1)[0]
    sigblock = str(m)[str(m).index('-----BEGIN PGP SIGNATURE-----'):]
    lines = text.split('\n')
    edits = []
    for name, suffix in (('space', ' '), ('tab', '\t'), ('spaces-and-tabs', ' \t \t'), ('nbsp', '\u00a0'), ('em-space', '\u2003'), ('ideographic-space', '\u3000'), ('form-feed', '\x0c'),
                         ('vertical-tab', '\x0b'), ('unit-separator', '\x1f'), ('zero-width-space', '\u200b'), ('lone-cr', '\r'), ('nel', '\u0085'), ('line-separator', '\u2028'), ('bom', '\ufeff')):
        for where_ in (0, 2, len(lines) - 1):
            new = list(lines)
            new[where_] = new[where_] + suffix
            edits.append(('trailing-%s-line-%d' % (name, where_), new))
    edits += [('inner-blanks-collapsed', [l.replace('  ', ' ') for l in lines]), ('leading-blank-added', [' ' + lines[0]] + lines[1:]), ('empty-line-dropped', [l for l in lines if l != '']),
              ('empty-line-added-at-end', lines + ['']), ('case', [l.upper() for l in lines]), ('dash-line-unescaped-text', [l.replace('- dashed', 'dashed') for l in lines]),
              ('lines-joined', [lines[0] + lines[1]] + lines[2:])]
    for name, new in edits:
        for eol in ('\n', '\r\n'):
            armored = header.replace('\n', eol) + eol + eol + eol.join(armor.dash_escape(new)) + eol + sigblock.replace('\n', eol)
            # the reference reads the armored text itself (a CR in front of a line ending is part of that line ending)
            try:
                from .C11 import ref_verify_cleartext
                _l, rres, _d = ref_verify_cleartext(armored, [sm])
                klass = 'valid' if rres and all(ok for ok, _ in rres) else 'invalid'
            except wire.Malformed:
                klass = 'malformed'
            ctx.count('carrier_mutants')
            ctx.count('cleartext_text_edits')
            try:
                with time_limit(10):
                    res, _ = sigwork.pgpy_verify(pub, pgpy.PGPMessage.from_blob(armored))
            except Stalled:
                res = 'error:stalled'
            except Exception:
                res = 'error:load'
            judge(ctx, klass, res, 'cleartext-' + name, d, {'transport': repr(eol), 'edited_lines': [x[:30] for x in new][:5]})


def _msg_several_signatures(ctx, d, pgpy, k, pub):
    """one verify() call over a message carrying several signatures of which exactly one was made over another text (transplanted): whoever
    issued which (primary key / signing subkey) and whichever is older, the result must not be truthy and must list the transplanted one as bad"""
    from pgpy.constants import CompressionAlgorithm
    sub = list(k.subkeys.values())[0]
    t0 = datetime(2022, 3, 3, 3, 3, 3, tzinfo=timezone.utc)
    for bad_by, good_by in (('primary', 'subkey'), ('subkey', 'primary'), ('primary', 'primary'), ('subkey', 'subkey')):
        for bad_older in (True, False):
            for ngood in (1, 2):
                signer = {'primary': k, 'subkey': sub}
                other = pgpy.PGPMessage.new(b'some other text that was really signed', compression=CompressionAlgorithm.Uncompressed, format='b')
                m = pgpy.PGPMessage.new(b'the text this message presents', compression=CompressionAlgorithm.Uncompressed, format='b')
                tb = t0 + timedelta(days=-5 if bad_older else 5)
                bad = signer[bad_by].sign(other, created=tb)
                goods = [signer[good_by if j == 0 else bad_by].sign(m, created=t0 + timedelta(hours=j)) for j in range(ngood)]
                for g in goods:
                    m |= g
                m |= bad
                for form in ('object', 'reloaded'):
                    mm = m if form == 'object' else pgpy.PGPMessage.from_blob(bytes(m))
                    ctx.count('evaluations')
                    ctx.count('semantic_mutants')
                    ctx.count('several_signature_subjects')
                    where = {'bad_signature_by': bad_by, 'good_signature_by': good_by, 'bad_is_older': bad_older, 'good_signatures': ngood, 'form': form, 'signer': d['signer']}
                    res, sv = sigwork.pgpy_verify(pub, mm)
                    if res == 'true':
                        ctx.fail('semantic-mutant-verified-true', dict({'base': d, 'mutation': 'message with a transplanted signature among genuine ones'}, **where))
                    elif res == 'false':
                        nbad = len(list(sv.bad_signatures))
                        ngood_seen = len(list(sv.good_signatures))
                        if nbad != 1 or ngood_seen != ngood:
                            ctx.fail('verdict-lists-wrong-signatures', dict(where, bad_listed=nbad, good_listed=ngood_seen))


def _msg_content_edits(ctx, d, pgpy, k, sm, pub):
    """the literal of a signed message replaced by octets that a lenient reader might identify with the signed ones: transcodings,
    Unicode normal forms, line-ending and blank edits, BOM, case -- for every literal format; the signature packet stays as it is"""
    import unicodedata
    from pgpy.constants import CompressionAlgorithm
    text = 'Zahlung 10 \u20ac an Zo\u00eb M\u00fcller \u212b\r\nzweite Zeile \t \nCafe\u0301 Ame\u0301lie\n'
    bases = [('u', text), ('t', text), ('b', text.encode('utf-8')), ('u', 'plain ascii\r\nlines \n'), ('b', b'\x00\xff\xfe binary \r\n'), ('t', 'latin \u00e9\u00fc only\n')]
    for fmt, content in bases:
        try:
            m = pgpy.PGPMessage.new(content, compression=CompressionAlgorithm.Uncompressed, format=fmt)
            m |= k.sign(m)
        except Exception:
            ctx.observe('message_base_not_constructible:' + fmt)
            continue
        pk = wire.split(bytes(m))
        lit = [p for p in pk if p.tag == 11][0]
        sg = [p for p in pk if p.tag == 2][0]
        f = grammar.literal_fields(lit.body)
        data = f['data']
        if ref_verdict(sg.raw, sm, {'doc': data}) != 'valid' or sigwork.pgpy_verify(pub, pgpy.PGPMessage.from_blob(bytes(m)))[0] != 'true':
            ctx.count('baseline_false')
            continue
        ctx.count('baseline_true')
        try:
            t = data.decode('utf-8')
        except UnicodeDecodeError:
            t = None
        edits = [('trailing-newline-dropped', data.rstrip(b'\n')), ('newline-added', data + b'\n'), ('crlf-to-lf', data.replace(b'\r\n', b'\n')), ('lf-to-crlf', data.replace(b'\r\n', b'\n').replace(b'\n', b'\r\n')),
                 ('trailing-blanks-dropped', b'\n'.join(x.rstrip(b' \t') for x in data.split(b'\n'))), ('bom-prefixed', b'\xef\xbb\xbf' + data), ('nul-appended', data + b'\x00'),
                 ('upper', data.upper()), ('one-octet-shorter', data[:-1]), ('empty', b'')]
        if t is not None:
            for name, enc in (('latin-1', 'latin-1'), ('cp1252', 'cp1252'), ('utf-16', 'utf-16-le'), ('ascii-dropped', 'ascii')):
                try:
                    edits.append(('transcoded-' + name, t.encode(enc, 'ignore' if enc == 'ascii' else 'strict')))
                except UnicodeEncodeError:
                    edits.append(('transcoded-' + name + '-lossy', t.encode(enc, 'replace')))
            for form in ('NFC', 'NFD', 'NFKC', 'NFKD'):
                edits.append(('normalised-' + form, unicodedata.normalize(form, t).encode('utf-8')))
            edits.append(('casefold', t.casefold().encode('utf-8')))
        for name, nd in edits:
            for nfmt in {fmt.encode(), b'u', b'b'}:
                body = nfmt + lit.body[1:len(lit.body) - len(data)] + nd
                blob = b''.join(p.raw for p in pk if p.tag == 4) + wire.new_hdr(11, len(body)) + body + sg.raw
                klass = ref_verdict(sg.raw, sm, {'doc': nd})
                ctx.count('carrier_mutants')
                ctx.count('message_content_edits')
                try:
                    with time_limit(10):
                        res, _ = sigwork.pgpy_verify(pub, pgpy.PGPMessage.from_blob(blob))
                except Stalled:
                    res = 'error:stalled'
                except Exception:
                    res = 'error:load'
                judge(ctx, klass, res, 'message-content-' + name, d, {'signed_format': fmt, 'presented_format': nfmt.decode(), 'presented': hx(nd)[:120]})
