"""C04 -- ciphertext integrity: tampered or mis-keyed encrypted messages never decrypt.

Fault enumeration: for integrity-protected messages made by PGPy and by the reference encryptor (RSA, ECDH, passphrase recipients,
all ciphers on a rotating basis, with and without compression) -- every single-bit flip of the encrypted data packet and of every
session-key packet, truncation at every offset, extensions, block swaps / duplications / deletions, splices between two messages
under the same session key, replacement of the trailing MDC region, ESK reordering / duplication / deletion, wrong passphrases and
non-recipient keys.  Oracle: the outcome of decrypt is an exception or exactly the plaintext that was encrypted -- never anything else.
"""
import warnings

from ..core import hx, time_limit, Stalled
from ..ref import wire, sym
from .. import pool, encwork

LEVEL = 'fault_enumeration'
RULE = ('case = (base message: producer x recipient kind x cipher x body x compression) x mutation class (x part); one evaluation per decryption '
        'attempt of a mutated message; every attempt is judged: outcome must be an exception or the original plaintext (for splices: of either parent); '
        'non-trivial = the mutation class produced at least one attempt whose outcome was an exception; distinct = distinct (base, class, part) descriptors')
ASSUMPTIONS = ['the legacy-SED downgrade (tag 18 -> tag 9 rewrite) is outside the enumerated mutation classes (DESIGN.md C04 limits)',
               'cryptography/OpenSSL block ciphers, RSA, ECDH']
MIN_COUNTERS = {'quick': {'attempts': 20000, 'bitflip_attempts': 12000, 'truncation_attempts': 1500, 'splice_attempts': 100, 'wrong_secret_attempts': 60, 'rejected': 15000, 'cross_message_splices': 10, 'cipher_octet_forgeries': 50},
                'thorough': {'attempts': 150000}}
BUDGET = {'quick': (600, 1500), 'thorough': (1800, 3600)}
TECHNIQUE = 'runtime monitoring: exhaustive data-fault injection on ciphertexts (bit flips, truncations, splices, block and packet edits, wrong secrets) with a deterministic outcome oracle'

BASES = [('pgpy', 'cv25519_0'), ('pgpy', 'rsa1024_1'), ('pgpy', 'ecdh_p256_0'), ('ref', 'cv25519_0'), ('ref', 'pass'), ('ref', 'rsa1024_1'), ('ref', 'ecdh_k256_0'),
         ('pgpy', 'pass')]
CLASSES = ['bitflip_data', 'bitflip_esk', 'truncate', 'extend', 'blocks', 'splice', 'mdc', 'esk_edit', 'wrong_secret']


def cases(tier, seed):
    cs = []
    ciphers = list(encwork.CIPHERS)
    i = 0
    for prod, rc in BASES:
        ncipher = 2 if tier == 'quick' else 9
        if prod == 'pgpy' and rc == 'pass':
            ncipher = 1 if tier == 'quick' else 3   # 0.13 s per attempt (S2K count 255): a measured sample only
        for j in range(ncipher):
            base = {'prod': prod, 'rc': rc, 'cipher': ciphers[(i + j * 4) % len(ciphers)], 'body': ['one', 'ascii', 'binary'][(i + j) % 3], 'comp': [0, 1, 2][(i + j) % 3]}
            for cl in CLASSES:
                if prod == 'pgpy' and rc == 'pass' and cl not in ('wrong_secret', 'mdc', 'esk_edit'):
                    continue
                parts = 4 if cl in ('bitflip_data', 'bitflip_esk') else 1
                for p in range(parts):
                    cs.append(dict(base, m=cl, part=p, of=parts))
        i += 1
    # the same classes with usage-flag enforcement switched off on the decrypting key (a documented knob that has nothing to do with integrity)
    j = 0
    for prod, rc in BASES:
        if rc == 'pass':
            continue
        for cl in ('wrong_secret', 'truncate', 'mdc', 'esk_edit', 'blocks'):
            cs.append({'prod': prod, 'rc': rc, 'cipher': ciphers[j % len(ciphers)], 'body': ['ascii', 'binary'][j % 2], 'comp': j % 3, 'm': cl, 'part': 0, 'of': 1, 'knob_off': True})
            j += 1
    return cs


PW = 'integrity pass'
PW2_BYTES = b'raw \xff\xfe bytes \n'


def near_misses(pw):
    """passphrases that differ from pw but that some normalisation would identify with it (never pw itself)"""
    import unicodedata
    out = []
    if isinstance(pw, bytes):
        cands = [pw.strip(), pw.rstrip(b'\n'), pw.rstrip(b'\r\n'), pw + b'\n', pw + b'\r\n', pw.lower(), pw.upper(), pw[:8], pw + b'\x00', pw.rstrip(b'\x00'),
                 pw.replace(b'\xff', b''), pw.decode('latin-1'), pw.decode('utf-8', 'ignore'), pw.decode('utf-8', 'replace')]
    else:
        cands = [pw + '\n', pw + '\r\n', pw + '\r', pw + '\t', pw + ' ', ' ' + pw, '\n' + pw, pw + '\x00', '\ufeff' + pw, pw + '\u00a0', pw + '\u200b',
                 pw.strip(), pw.rstrip(), pw.lstrip(), pw.rstrip('\r\n'), pw.rstrip('\n'), pw.replace('  ', ' '), pw.replace('\t', ' '), pw.replace(' ', ''),
                 pw.lower(), pw.upper(), pw.casefold(), pw.title(), pw.swapcase(),
                 unicodedata.normalize('NFC', pw), unicodedata.normalize('NFD', pw), unicodedata.normalize('NFKC', pw), unicodedata.normalize('NFKD', pw),
                 pw[:8], pw[:-1], pw[1:], pw * 2, pw.encode('utf-8').decode('latin-1'), pw.encode('utf-16-le'), pw.encode('latin-1', 'ignore'), pw.encode('ascii', 'ignore'),
                 pw.encode('utf-8').rstrip(b'\n'), pw.encode('utf-8') + b'\n',
                 pw.translate({ord('i'): 0x456, ord('a'): 0x430, ord('e'): 0x435})]      # Cyrillic look-alikes
    seen = set()
    same = pw.encode('utf-8') if isinstance(pw, str) else pw
    for c in cands:
        cb = c.encode('utf-8') if isinstance(c, str) else bytes(c)
        if cb == same or (type(c), cb) in seen:
            continue
        seen.add((type(c), cb))
        out.append(c)
    return out


def build(d, rng, content_tag=b''):
    """-> (blob, secret for decrypt ('key', PGPKey)|('pass', str), original content bytes, session key)"""
    import pgpy
    from pgpy.constants import SymmetricKeyAlgorithm, CompressionAlgorithm
    cid = encwork.CIPHERS[d['cipher']]
    content = encwork.body_of({'body': d['body']}, rng)
    data = (content.encode('utf-8') if isinstance(content, str) else content) + content_tag
    sk = bytes(rng.getrandbits(8) for _ in range(sym.keylen(cid)))
    if d['prod'] == 'pgpy':
        msg = pgpy.PGPMessage.new(data, format='b', compression=[CompressionAlgorithm.Uncompressed, CompressionAlgorithm.ZIP, CompressionAlgorithm.ZLIB][d['comp']])
        if d['rc'] == 'pass':
            enc = msg.encrypt(PW, sessionkey=sk, cipher=getattr(SymmetricKeyAlgorithm, d['cipher']))
            return bytes(enc), ('pass', PW), data, sk
        k, m = encwork.recipient(d['rc'])
        enc = k.pubkey.encrypt(msg, sessionkey=sk, cipher=getattr(SymmetricKeyAlgorithm, d['cipher']))
        return bytes(enc), ('key', _knob(k, d)), data, sk
    lit = encwork.literal_packet(data, b'b', b'', 0)
    plain = lit
    if d['comp']:
        cd = bytes([d['comp']]) + sym.compress(d['comp'], lit)
        plain = wire.new_hdr(8, len(cd)) + cd
    prefix = bytes(rng.getrandbits(8) for _ in range(sym.blocksize(cid)))
    if d['rc'] == 'pass':
        salt = bytes(rng.getrandbits(8) for _ in range(8))
        blob = encwork.ref_encrypt(plain, cid, sk, [('pass', PW, (3, 8, salt, 0x08), False)], prefix=prefix)
        return blob, ('pass', PW), data, sk
    k, m = encwork.recipient(d['rc'])
    blob = encwork.ref_encrypt(plain, cid, sk, [('key', m)], prefix=prefix)
    return blob, ('key', _knob(k, d)), data, sk


_KNOB = {}


def _knob(k, d):
    """the decrypting key object; with d['knob_off'] a separate object whose usage-flag enforcement is switched off"""
    if not d.get('knob_off'):
        return k
    import copy
    if id(k) not in _KNOB:
        k2 = copy.copy(k)
        k2._require_usage_flags = False
        for sk_ in k2.subkeys.values():
            sk_._require_usage_flags = False
        _KNOB[id(k)] = (k, k2)
    return _KNOB[id(k)][1]


def _still_has_encrypted_packet(blob):
    """is the input still (part of) an encrypted message - an encrypted data packet or a session-key packet at the top level?"""
    try:
        return any(p.tag in (9, 18, 1, 3) for p in wire.split(bytes(blob)))
    except Exception:
        return False


def attempt(ctx, pgpy, blob, secret, allowed, what, d, extra=None, counter=None):
    """decrypt a (mutated) message; the outcome must be an exception or one of the allowed plaintexts"""
    ctx.count('attempts')
    ctx.count('evaluations')
    if counter:
        ctx.count(counter)
    try:
        with warnings.catch_warnings(record=True) as wlist:
            warnings.simplefilter('always')
            with time_limit(15):
                em = pgpy.PGPMessage.from_blob(bytes(blob))
                dec = secret[1].decrypt(em) if secret[0] == 'key' else em.decrypt(secret[1])
    except Stalled:
        ctx.outcome('stalled')
        ctx.count('rejected')
        return 'stalled'
    except Exception as e:
        ctx.outcome('exception:' + type(e).__name__)
        ctx.count('rejected')
        return 'exception'
    try:
        got = bytes(dec._message._contents) if dec.type == 'literal' else None
    except Exception:
        got = None
    if dec is em and not em.is_encrypted and any('not encrypted' in str(w.message) for w in wlist) and (got is None or got not in allowed) \
            and _still_has_encrypted_packet(blob):
        # the input still holds an encrypted data packet, yet PGPy calls it "not encrypted" and hands back a plaintext packet that
        # travelled beside it: the encrypted part was dropped silently
        ctx.outcome('ENCRYPTED-PART-IGNORED')
        ctx.fail('encrypted-data-packet-ignored-and-foreign-plaintext-returned', dict({'base': d, 'mutation': what, 'returned': hx(got)[:120] if got is not None else repr(dec)[:100],
                                                                                    'message': hx(blob)[:600]}, **(extra or {})))
        return 'different'
    if dec is em and not em.is_encrypted and any('not encrypted' in str(w.message) for w in wlist):
        # the mutation destroyed the framing: what is left does not parse as an encrypted message, nothing was decrypted, and PGPy
        # hands the *input object* back with its documented "This message is not encrypted" warning (behaviour pinned by the suite)
        ctx.outcome('not-encrypted-any-more:input-returned-with-warning')
        ctx.observe('decrypt_of_non_encrypted_input_returns_input')
        ctx.count('rejected')
        return 'nothing'
    if dec is not None and getattr(dec, 'is_encrypted', False):
        # decrypt() handed back something still encrypted (e.g. the "not encrypted" early return cannot apply): treat as no plaintext
        got = None
    if got is not None and got in allowed:
        ctx.outcome('same-plaintext')
        ctx.count('same_plaintext')
        return 'same'
    ctx.outcome('DIFFERENT-PLAINTEXT')
    ctx.fail('wrong-secret-accepted' if counter == 'wrong_secret_attempts' else 'parts-of-two-messages-decrypt-together' if counter == 'cross_message_splices' else 'tampered-message-decrypted-to-different-plaintext', dict({'base': d, 'mutation': what, 'returned': hx(got)[:120] if got is not None else repr(dec)[:100],
                                                                        'message': hx(blob)[:600]}, **(extra or {})))
    return 'different'


def run_case(ctx, d):
    import pgpy
    rng = ctx.rng('base', {k: d[k] for k in ('prod', 'rc', 'cipher', 'body', 'comp')})
    with warnings.catch_warnings():
        warnings.simplefilter('ignore')
        blob, secret, data, sk = build(d, rng)
        # baseline must decrypt to the original
        r = attempt(ctx, pgpy, blob, secret, [data], 'none', d)
        ctx.counters['attempts'] -= 1
        if r != 'same':
            ctx.count('baseline_failed')
            return
        before = ctx.counters['rejected']
        pk = wire.split(blob)
        spans = []
        off = 0
        for p in pk:
            spans.append((off, off + len(p.raw), p))
            off += len(p.raw)
        dspan = [s for s in spans if s[2].tag == 18][0]
        espans = [s for s in spans if s[2].tag in (1, 3)]
        bs = sym.blocksize(encwork.CIPHERS[d['cipher']])
        m = d['m']
        if m in ('bitflip_data', 'bitflip_esk'):
            rngs = [dspan] if m == 'bitflip_data' else espans
            for a, b, p in rngs:
                for bit in range(a * 8, b * 8):
                    if bit % d['of'] != d['part']:
                        continue
                    mm = bytearray(blob)
                    mm[bit // 8] ^= 0x80 >> (bit % 8)
                    attempt(ctx, pgpy, mm, secret, [data], m, d, {'bit': bit, 'packet_tag': p.tag, 'offset_in_packet': bit // 8 - a}, 'bitflip_attempts')
        elif m == 'truncate':
            for n in range(len(blob)):
                attempt(ctx, pgpy, blob[:n], secret, [data], 'truncate', d, {'keep': n}, 'truncation_attempts')
            # truncation with the packet length field corrected
            a, b, p = dspan
            body = p.body
            for n in range(1, len(body)):
                nb = blob[:a] + wire.new_hdr(18, n) + body[:n]
                attempt(ctx, pgpy, nb, secret, [data], 'truncate-body-fix-length', d, {'keep': n}, 'truncation_attempts')
        elif m == 'extend':
            a, b, p = dspan
            for n in list(range(1, bs + 3)) + [2 * bs, 22, 44]:
                for fill in (b'\x00', b'\xd3', bytes([rng.getrandbits(8)])):
                    nb = blob[:a] + wire.new_hdr(18, len(p.body) + n) + p.body + fill * n
                    attempt(ctx, pgpy, nb, secret, [data], 'extend', d, {'n': n})
                    attempt(ctx, pgpy, blob + fill * n, secret, [data], 'append-raw', d, {'n': n})
        elif m == 'blocks':
            a, b, p = dspan
            ct = p.body[1:]
            nblk = len(ct) // bs
            def rebuild(c):
                return blob[:a] + wire.new_hdr(18, 1 + len(c)) + b'\x01' + c
            for i in range(nblk):
                for j in range(i + 1, min(nblk, i + 6)):
                    c = bytearray(ct)
                    c[i * bs:(i + 1) * bs], c[j * bs:(j + 1) * bs] = ct[j * bs:(j + 1) * bs], ct[i * bs:(i + 1) * bs]
                    attempt(ctx, pgpy, rebuild(bytes(c)), secret, [data], 'swap-blocks', d, {'i': i, 'j': j})
                attempt(ctx, pgpy, rebuild(ct[:i * bs] + ct[i * bs:(i + 1) * bs] + ct[i * bs:]), secret, [data], 'duplicate-block', d, {'i': i})
                attempt(ctx, pgpy, rebuild(ct[:i * bs] + ct[(i + 1) * bs:]), secret, [data], 'delete-block', d, {'i': i})
        elif m == 'splice':
            # a second message under the same session key and recipient
            rng2 = ctx.rng('second', d)
            d2 = dict(d)
            blobB, secretB, dataB, _ = _build_same_key(d, sk, rng2)
            pkB = wire.split(blobB)
            pB = [p for p in pkB if p.tag == 18][0]
            a, b, p = dspan
            ctA, ctB = p.body[1:], pB.body[1:]
            for cut in range(0, min(len(ctA), len(ctB)) + 1, 1 if len(ctA) < 200 else bs // 2):
                for first, second in ((ctA, ctB), (ctB, ctA)):
                    c = first[:cut] + second[cut:]
                    nb = blob[:a] + wire.new_hdr(18, 1 + len(c)) + b'\x01' + c
                    attempt(ctx, pgpy, nb, secret, [data, dataB], 'splice', d, {'cut': cut}, 'splice_attempts')
            # last 22 plaintext-aligned octets of the other message
            for first, second in ((ctA, ctB), (ctB, ctA)):
                c = first[:-22] + second[-22:]
                nb = blob[:a] + wire.new_hdr(18, 1 + len(c)) + b'\x01' + c
                attempt(ctx, pgpy, nb, secret, [data, dataB], 'replace-mdc-with-other-message', d, None, 'splice_attempts')
        elif m == 'mdc':
            a, b, p = dspan
            ct = p.body[1:]
            for n in (20, 22):
                for fill in (b'\x00' * n, b'\xff' * n, bytes(rng.getrandbits(8) for _ in range(n))):
                    c = ct[:-n] + fill
                    nb = blob[:a] + wire.new_hdr(18, 1 + len(c)) + b'\x01' + c
                    attempt(ctx, pgpy, nb, secret, [data], 'replace-mdc', d)
                c = ct[:-n]
                attempt(ctx, pgpy, blob[:a] + wire.new_hdr(18, 1 + len(c)) + b'\x01' + c, secret, [data], 'strip-mdc', d)
            # downgrade of the packet *version* octet / tag stays inside the enumerated single-bit flips
        elif m == 'esk_edit':
            a, b, p = dspan
            esk = [s[2].raw for s in espans]
            datapkt = blob[a:b]
            other_blob, _, _, _ = build(dict(d, body='ascii'), ctx.rng('other', d), b'!')
            other_esk = [q.raw for q in wire.split(other_blob) if q.tag in (1, 3)]
            attempt(ctx, pgpy, datapkt, secret, [data], 'delete-all-esk', d)
            attempt(ctx, pgpy, b''.join(esk + esk) + datapkt, secret, [data], 'duplicate-esk', d)
            attempt(ctx, pgpy, b''.join(other_esk) + datapkt, secret, [data], 'esk-of-other-message', d)
            attempt(ctx, pgpy, b''.join(other_esk + esk) + datapkt, secret, [data], 'foreign-esk-first', d)
            attempt(ctx, pgpy, b''.join(esk + other_esk) + datapkt, secret, [data], 'foreign-esk-last', d)
            attempt(ctx, pgpy, datapkt + b''.join(esk), secret, [data], 'esk-after-data', d)
            attempt(ctx, pgpy, b''.join(esk) + datapkt + datapkt, secret, [data], 'data-twice', d)
            if d['prod'] == 'pgpy':
                # two messages PGPy encrypted on its own (it chose the session keys) to the same recipient with the same cipher:
                # the session-key packet of one never opens the body of the other
                import pgpy as _p
                from pgpy.constants import SymmetricKeyAlgorithm as _S, CompressionAlgorithm as _C
                pair = []
                for txt in (b'message A: pay 10 EUR to alice', b'message B: pay 9999 EUR to mallory'):
                    m_ = _p.PGPMessage.new(txt, format='b', compression=_C.Uncompressed)
                    e_ = m_.encrypt(PW, cipher=getattr(_S, d['cipher'])) if secret[0] == 'pass' else secret[1].pubkey.encrypt(m_, cipher=getattr(_S, d['cipher']))
                    pk_ = wire.split(bytes(e_))
                    pair.append((b''.join(q.raw for q in pk_ if q.tag in (1, 3)), b''.join(q.raw for q in pk_ if q.tag == 18), txt))
                attempt(ctx, pgpy, pair[0][0] + pair[1][1], secret, [], 'session-key-packet-of-A-with-body-of-B', d, None, 'cross_message_splices')
                attempt(ctx, pgpy, pair[1][0] + pair[0][1], secret, [], 'session-key-packet-of-B-with-body-of-A', d, None, 'cross_message_splices')
                attempt(ctx, pgpy, pair[0][0] + pair[0][1], secret, [pair[0][2]], 'message-A-reassembled', d)
            # plaintext packets smuggled in beside the encrypted one: the result is the true plaintext or an error, never the smuggled text
            evil = encwork.literal_packet(b'pay 9999 EUR to mallory', b'b', b'', 0)
            evil_z = wire.new_hdr(8, 1 + len(evil)) + b'\x00' + evil
            marker = wire.new_hdr(10, 3) + b'PGP'
            for name, extra in (('literal', evil), ('uncompressed-compressed-literal', evil_z)):
                attempt(ctx, pgpy, extra + b''.join(esk) + datapkt, secret, [data], name + '-prepended', d)
                attempt(ctx, pgpy, b''.join(esk) + extra + datapkt, secret, [data], name + '-between-esk-and-data', d)
                attempt(ctx, pgpy, b''.join(esk) + datapkt + extra, secret, [data], name + '-appended', d)
                if len(esk) > 0:
                    attempt(ctx, pgpy, esk[0] + extra + b''.join(esk[1:]) + datapkt, secret, [data], name + '-after-first-esk', d)
            attempt(ctx, pgpy, marker + b''.join(esk) + datapkt, secret, [data], 'marker-prepended', d)
            # forgery that needs no secret at all: the cipher octet inside a passphrase session-key packet is turned into another one by xor (the
            # first octet of a CFB stream) - in particular into 0, "no encryption" - and the body is replaced by text in the clear with its unkeyed hash
            import hashlib
            cid = encwork.CIPHERS[d['cipher']]
            for ei, e_ in enumerate(esk):
                ep = wire.split(e_)[0]
                if ep.tag != 3:
                    continue
                f_ = sym.skesk_fields(ep.body)
                if not f_['esk']:
                    continue
                pos = len(ep.body) - len(f_['esk'])
                for target in (0, 1, 2, 3, 4, 7, 9, 10, 13):
                    if target == cid:
                        continue
                    nb_ = bytearray(ep.body)
                    nb_[pos] ^= cid ^ target
                    forged_esk = wire.new_hdr(3, len(nb_)) + bytes(nb_)
                    for fbs in (8, 16):
                        pre = bytes(rng.getrandbits(8) for _ in range(fbs))
                        pre += pre[-2:]
                        clear = pre + evil + b'\xd3\x14'
                        body_ = b'\x01' + clear + hashlib.sha1(clear).digest()
                        parts_ = list(esk)
                        parts_[ei] = forged_esk
                        attempt(ctx, pgpy, b''.join(parts_) + wire.new_hdr(18, len(body_)) + body_, secret, [data], 'cipher-octet-rewritten-to-%d-and-body-in-the-clear' % target, d,
                                {'block': fbs}, 'cipher_octet_forgeries')
                        attempt(ctx, pgpy, b''.join(parts_) + wire.new_hdr(9, len(clear) ) + clear, secret, [data], 'cipher-octet-rewritten-to-%d-and-old-style-body-in-the-clear' % target, d,
                                {'block': fbs}, 'cipher_octet_forgeries')
        elif m == 'wrong_secret':
            # the same message *object*, after it has been decrypted successfully once: a wrong secret must still be refused
            try:
                em_used = pgpy.PGPMessage.from_blob(bytes(blob))
                first = secret[1].decrypt(em_used) if secret[0] == 'key' else em_used.decrypt(secret[1])
                wrongs = [('pass', w) for w in ('', 'nope', PW + 'x')] if secret[0] == 'pass' else [('key', encwork.recipient(o)[0]) for o in encwork.RECIPIENTS[:4] if o != d['rc']]
                for wkind, w in wrongs:
                    ctx.count('attempts')
                    ctx.count('evaluations')
                    ctx.count('wrong_secret_attempts')
                    try:
                        with time_limit(15):
                            dec2 = w.decrypt(em_used) if wkind == 'key' else em_used.decrypt(w)
                        ctx.fail('wrong-secret-accepted-on-message-object-already-decrypted-once', {'base': d, 'secret': wkind, 'returned': hx(bytes(dec2._message._contents))[:80] if dec2.type == 'literal' else repr(dec2)[:80]})
                    except Stalled:
                        ctx.outcome('stalled')
                    except Exception as e:
                        ctx.outcome('exception:' + type(e).__name__)
                        ctx.count('rejected')
                # and the right secret keeps working on that object
                again = secret[1].decrypt(em_used) if secret[0] == 'key' else em_used.decrypt(secret[1])
                if bytes(again._message._contents) != data:
                    ctx.fail('second-decryption-of-same-object-differs', {'base': d})
            except Exception as e:
                ctx.fail('reuse-of-message-object-raised', {'base': d, 'err': '%s: %s' % (type(e).__name__, str(e)[:120])})
            if secret[0] == 'pass':
                import unicodedata
                for pw in ('', ' ', PW + ' ', PW.upper(), PW[:-1], PW + 'x', 'İntegrity pass', unicodedata.normalize('NFD', 'intégrity pass'), PW.encode('utf-8') + b'\x00', 'x' * 500):
                    r = attempt(ctx, pgpy, blob, ('pass', pw), [], 'wrong-passphrase', d, {'passphrase': repr(pw)[:40]}, 'wrong_secret_attempts')
                # near misses: whatever a helpful normalisation (strip, case fold, Unicode normal forms, newline handling, truncation) would map onto the right one
                for pw in near_misses(PW):
                    attempt(ctx, pgpy, blob, ('pass', pw), [], 'near-miss-passphrase', d, {'passphrase': repr(pw)[:40]}, 'wrong_secret_attempts')
                # ... and the other way round: the real passphrase is the untidy one
                from pgpy.constants import SymmetricKeyAlgorithm, CompressionAlgorithm
                for real in (' Pa\u0301ss  phrase\t\r\n', 'trailing newline\n', '\ufb01ne \u212b', PW2_BYTES):
                    m2 = pgpy.PGPMessage.new(b'near miss', compression=CompressionAlgorithm.Uncompressed)
                    eblob = bytes(m2.encrypt(real, cipher=SymmetricKeyAlgorithm.AES128))
                    for pw in near_misses(real):
                        attempt(ctx, pgpy, eblob, ('pass', pw), [], 'near-miss-passphrase', d, {'real': repr(real)[:40], 'passphrase': repr(pw)[:40]}, 'wrong_secret_attempts')
                    ok = attempt(ctx, pgpy, eblob, ('pass', real), [b'near miss'], 'right-untidy-passphrase', d, {'real': repr(real)[:40]})
            else:
                for other in encwork.RECIPIENTS:
                    if other == d['rc']:
                        continue
                    k2, _ = encwork.recipient(other)
                    k2 = _knob(k2, d)
                    attempt(ctx, pgpy, blob, ('key', k2), [], 'non-recipient-key', d, {'key': other}, 'wrong_secret_attempts')
                    # non-recipient whose key id is written into the PKESK
                    a2, b2, p2 = espans[0]
                    kid = bytes.fromhex(list(k2.subkeys.keys())[0])
                    nb = blob[:a2] + wire.new_hdr(1, len(p2.body)) + p2.body[:1] + kid + p2.body[9:] + blob[b2:]
                    if pool.mat(other)['alg'] == pool.mat(d['rc'])['alg']:
                        attempt(ctx, pgpy, nb, ('key', k2), [], 'non-recipient-key-id-rewritten', d, {'key': other}, 'wrong_secret_attempts')
                attempt(ctx, pgpy, blob, ('pass', PW), [], 'passphrase-on-key-message', d, None, 'wrong_secret_attempts')
        if ctx.counters['rejected'] > before:
            ctx.nontrivial(d)
        if len(ctx.samples) < 4:
            ctx.sample({'base': d, 'message_octets': len(blob), 'packets': [p.tag for p in pk], 'rejected_in_case': ctx.counters['rejected'] - before})


def _build_same_key(d, sk, rng):
    """second message (different content) to the same recipient under the same session key"""
    import pgpy
    from pgpy.constants import SymmetricKeyAlgorithm, CompressionAlgorithm
    cid = encwork.CIPHERS[d['cipher']]
    data = b'SECOND message body, different from the first one ' + bytes(rng.getrandbits(8) for _ in range(20))
    if d['prod'] == 'pgpy':
        msg = pgpy.PGPMessage.new(data, format='b', compression=[CompressionAlgorithm.Uncompressed, CompressionAlgorithm.ZIP, CompressionAlgorithm.ZLIB][d['comp']])
        if d['rc'] == 'pass':
            return bytes(msg.encrypt(PW, sessionkey=sk, cipher=getattr(SymmetricKeyAlgorithm, d['cipher']))), ('pass', PW), data, sk
        k, m = encwork.recipient(d['rc'])
        return bytes(k.pubkey.encrypt(msg, sessionkey=sk, cipher=getattr(SymmetricKeyAlgorithm, d['cipher']))), ('key', k), data, sk
    lit = encwork.literal_packet(data, b'b', b'', 0)
    plain = lit
    if d['comp']:
        cd = bytes([d['comp']]) + sym.compress(d['comp'], lit)
        plain = wire.new_hdr(8, len(cd)) + cd
    if d['rc'] == 'pass':
        return encwork.ref_encrypt(plain, cid, sk, [('pass', PW, (3, 8, b'saltsalt', 0x08), False)]), ('pass', PW), data, sk
    k, m = encwork.recipient(d['rc'])
    return encwork.ref_encrypt(plain, cid, sk, [('key', m)]), ('key', k), data, sk
