"""C11 -- the cleartext signature framework preserves the text and the signature.

Reference-model monitor over an adversarial line alphabet (lines starting with '-', '- ', 'From ', armor-looking lines, empty lines,
trailing spaces/tabs, non-ASCII, very long lines; LF / CRLF; with and without final newline): every text is cleartext-signed by PGPy,
written out and read back (text, signatures, verification); the armored text is also taken apart by the independent implementation
(own dearmor, dash-unescape, section 7.1 canonical text, own verifier) and by GnuPG on a sample; conversely cleartext messages made by
the reference (and GnuPG) must verify under PGPy.
"""
import itertools
import warnings

from ..core import hx
from ..ref import wire, armor, sig as RS, keys as RK
from .. import pool, sigwork, gpgx

LEVEL = 'exploration'
RULE = ('case = (text over the adversarial alphabet, line ending, final newline, hash, signer set) per direction; one evaluation per message written/read/'
        'verified by one oracle; non-trivial text = contains a line needing dash-escape, a trailing blank, an empty line or non-ASCII; distinct = distinct texts (digest)')
ASSUMPTIONS = ['vf.ref.armor cleartext canonicalisation follows RFC 4880 7.1 (trailing SP/TAB removed, CRLF line endings, last line ending not signed)',
               'a lone CR is not treated as a line ending (RFC 4880 does not define it as one)']
MIN_COUNTERS = {'quick': {'texts': 700, 'pgpy_made_read_back': 700, 'pgpy_made_ref_verified': 600, 'ref_made_pgpy_verified': 600, 'dash_lines_checked': 500, 'cosign_steps': 25},
                'thorough': {'texts': 20000}}
BUDGET = {'quick': (600, 1500), 'thorough': (1800, 3600)}
TECHNIQUE = 'runtime monitoring: differential reference-model monitor (independent cleartext framework + verifier) + GnuPG second oracle'

ALPHABET = ['-', '- ', '-----BEGIN PGP SIGNATURE-----', '-----BEGIN PGP SIGNED MESSAGE-----', 'From here', '', 'a', 'trailing space ', 'trailing tab\t', 'mixed \t ',
            '- - already escaped', '--', 'Hash: SHA1', 'é accent', '日本語', '\U0001F600 emoji', ' leading space', 'x' * 300, '-----END PGP SIGNATURE-----', '=abcd',
            # characters that Python's str.splitlines() treats as line boundaries but OpenPGP does not, each followed by a dash
            'lone cr\r-dash', 'form feed\x0c- dash', 'vt\x0b-dash', 'nel\u0085-dash', 'ls\u2028- dash', 'ps\u2029-dash', 'fs\x1c-dash \x1d-- \x1e-',
            # text that is not in Unicode normalisation form C (decomposed accent, conjoining jamo, compatibility characters): signed as it stands
            'e\u0301 decomposed', '\u1112\u1161\u11ab jamo \u212b \u2126', '\U0002F804 compat \ufb01']
SIGNERS = ['ed25519_0', 'rsa1024_0', 'dsa1024_0', 'ecdsa_p256_0']


def cases(tier, seed):
    import random
    r = random.Random(seed)
    texts = []
    for l in ALPHABET:
        texts.append([l])
    for a, b in itertools.product(range(len(ALPHABET)), repeat=2):
        texts.append([ALPHABET[a], ALPHABET[b]])
    if tier != 'quick':
        for t in itertools.product(range(len(ALPHABET)), repeat=3):
            texts.append([ALPHABET[i] for i in t])
    for _ in range(120 if tier == 'quick' else 12000):
        texts.append([r.choice(ALPHABET) for _ in range(r.randint(3, 40))])
    if tier == 'quick':
        for _ in range(420):
            texts.append([r.choice(ALPHABET) for _ in range(3)])
    cs = []
    B = 12
    for i in range(0, len(texts), B):
        cs.append({'t': 'texts', 'texts': texts[i:i + B], 'eol': ['\n', '\r\n'][(i // B) % 2], 'text_eol': ['\n', '\n', '\r\n'][(i // B) % 3], 'final': (i // B) % 3 != 0,
                   'hash': list(sigwork.HASHES)[(i // B) % 6],
                   'signers': SIGNERS[(i // B) % 4:(i // B) % 4 + 1 + ((i // B) % 5 == 0)]})
    # every one-line text (and the empty one) under every combination of transport line ending and final line ending
    singles = [[l] for l in ALPHABET] + [['only line']]
    for j in range(0, len(singles), B):
        for eol in ('\n', '\r\n'):
            for final in (False, True):
                cs.append({'t': 'texts', 'texts': singles[j:j + B], 'eol': eol, 'text_eol': '\n', 'final': final, 'hash': list(sigwork.HASHES)[(j // B) % 6], 'signers': SIGNERS[(j // B) % 4:(j // B) % 4 + 1]})
    hs = list(sigwork.HASHES)
    for j in range(12 if tier == 'quick' else 200):
        n = 2 + j % 2
        cs.append({'t': 'cosign', 'start': ['pgpy', 'ref'][j % 2], 'signers': [SIGNERS[(j + x) % 4] for x in range(n)], 'hashes': [hs[(j + 2 * x + (x > 0)) % len(hs)] for x in range(n)]})
    if gpgx.available():
        cs.append({'t': 'gpg', 'n': 12 if tier == 'quick' else 60, 'seed': seed})
    return cs


def needs_escape(line):
    return line.startswith('-')


def ref_verify_cleartext(armored, signer_mats, quirk=None):
    """independent reading of a cleartext-signed message -> (text lines, [per signature ok])"""
    d = armor.dearmor(armored)
    lines = armor.dash_unescape(d['cleartext_lines'])
    text = '\n'.join(lines)
    canon = (armor.cleartext_canonical_keep_blanks if quirk == 'keep_blanks' else armor.cleartext_canonical)(text)
    res = []
    for p in wire.split(d['data']):
        s = RS.parse_sig(p.body, strict=False)
        m = next((mm for mm in signer_mats if RK.keyid_of(mm) == RS.issuer(s)), None)
        if m is None:
            res.append((False, 'unknown issuer'))
            continue
        if s['type'] != 0x01:
            res.append((False, 'signature type 0x%02x' % s['type']))
            continue
        res.append(RS.verify(s, m, RS.hash_input(s, doc=canon)))
    return lines, res, d


def ref_make_cleartext(text, signer_mats, halg, eol='\n'):
    """reference-made cleartext signed message (text: str with LF line endings)"""
    canon = armor.cleartext_canonical(text)
    sigs = b''
    for m in signer_mats:
        h, u = RS.std_areas(m, 1650000000)
        body = RS.sign(m, 0x01, halg, h, u, doc=canon)
        sigs += wire.new_hdr(2, len(body)) + body
    lines = armor.dash_escape(text.split('\n'))
    hname = {1: 'MD5', 2: 'SHA1', 8: 'SHA256', 9: 'SHA384', 10: 'SHA512', 11: 'SHA224'}[halg]
    out = '-----BEGIN PGP SIGNED MESSAGE-----' + eol + 'Hash: ' + hname + eol + eol + eol.join(lines) + eol + armor.armor('SIGNATURE', sigs, eol=eol)
    return out


def run_case(ctx, d):
    import pgpy
    with warnings.catch_warnings():
        warnings.simplefilter('ignore')
        if d['t'] == 'gpg':
            return _gpg(ctx, d, pgpy)
        if d['t'] == 'cosign':
            return _cosign(ctx, d, pgpy)
        _texts(ctx, d, pgpy)


def _hash_header(text):
    """hash names announced by the Hash: armor header lines of a cleartext signed message"""
    names = set()
    lines = text.replace('\r\n', '\n').split('\n')
    for l in lines[1:]:
        if l == '':
            break
        if l.startswith('Hash:'):
            names |= {x.strip() for x in l[5:].split(',') if x.strip()}
    return names


def _cosign(ctx, d, pgpy):
    """signatures added one after the other with differing hash algorithms, also to a message that was read in (written by PGPy or by the reference):
    after every step the Hash: header announces every digest in use, the text is unchanged and every signature verifies (reference and PGPy)"""
    from pgpy.constants import HashAlgorithm
    text = 'co-signed text\n- with a dash line \nand trailing blanks  \nlast'
    order = d['signers']
    hashes = d['hashes']
    keys = [sigwork.signer_key(s_) for s_ in order]
    mats = [pool.mat(s_) for s_ in order]
    where = {'signers': order, 'hashes': hashes, 'start': d['start']}
    if d['start'] == 'pgpy':
        m = pgpy.PGPMessage.new(text, cleartext=True)
        m |= keys[0].sign(m, hash=getattr(HashAlgorithm, hashes[0]))
        cur = str(m)
    else:
        cur = ref_make_cleartext(text, mats[:1], sigwork.HASHES[hashes[0]], '\n')
    for n in range(1, len(order) + 1):
        ctx.count('evaluations')
        ctx.count('cosign_steps')
        used = set(hashes[:n])
        ann = _hash_header(cur)
        if not used <= ann and used != {'MD5'}:
            ctx.fail('hash-header-missing-or-wrong', dict(where, step=n, announced=sorted(ann), used=sorted(used)))
        try:
            rlines, rres, rd = ref_verify_cleartext(cur, mats[:n])
            if '\n'.join(rlines) != text:
                ctx.fail('reference-reads-different-text', dict(where, step=n, got='\n'.join(rlines)[:120]))
            if len(rres) != n or not all(ok for ok, _ in rres):
                ctx.fail('reference-rejects-pgpy-cleartext-signature', dict(where, step=n, results=[w for ok, w in rres if not ok][:3], count=len(rres)))
            else:
                ctx.count('pgpy_made_ref_verified')
        except wire.Malformed as e:
            ctx.fail('reference-cannot-read-pgpy-cleartext-message', dict(where, step=n, err=str(e)))
        m = pgpy.PGPMessage.from_blob(cur)
        if m.message != text:
            ctx.fail('text-read-back-differs', dict(where, step=n, got=m.message[:120]))
        for k in keys[:n]:
            res, _ = sigwork.pgpy_verify(k.pubkey, m)
            if res != 'true':
                ctx.fail('cleartext-signature-fails-after-read-back', dict(where, step=n, result=res))
        if n < len(order):
            m |= keys[n].sign(m, hash=getattr(HashAlgorithm, hashes[n]))
            cur = str(m)
    ctx.nontrivial(d)


def _texts(ctx, d, pgpy):
    from pgpy.constants import HashAlgorithm
    keys = [sigwork.signer_key(s) for s in d['signers']]
    pubs = [k.pubkey for k in keys]
    mats = [pool.mat(s) for s in d['signers']]
    halg = getattr(HashAlgorithm, d['hash'])
    for lines in d['texts']:
        teol = d.get('text_eol', '\n')
        text = teol.join(lines) + (teol if d['final'] else '')
        norm = lambda t_: t_.replace('\r\n', '\n')      # a text given with CRLF line endings may come back with LF: same text, other line-ending form
        ctx.count('texts')
        if teol != '\n':
            ctx.count('texts_with_crlf_inside')
        special = any(needs_escape(l) or l != l.rstrip(' \t') or l == '' or not l.isascii() for l in lines)
        if special:
            ctx.nontrivial(hx(__import__('hashlib').sha1(text.encode()).digest()[:8]))
        where = {'text': text[:200], 'eol': repr(d['eol']), 'hash': d['hash'], 'signers': d['signers']}
        # ---------------- direction A: PGPy writes
        ctx.count('evaluations')
        m = pgpy.PGPMessage.new(text, cleartext=True)
        for k in keys:
            m |= k.sign(m, hash=halg)
        try:
            out = str(m)
        except Exception as e:
            ctx.fail('cleartext-message-cannot-be-written', dict(where, err='%s: %s' % (type(e).__name__, str(e)[:120])))
            out = None
        if out is not None:
            wire_text = out.replace('\r\n', '\n').replace('\n', d['eol']) if (teol != '\n' and d['eol'] != '\n') else out.replace('\n', d['eol']) if teol == '\n' else out
            # dash-escaping of the written text
            body_lines = out.split('\n')
            try:
                start = body_lines.index('') + 1
                end = max(i for i, l in enumerate(body_lines) if l == '-----BEGIN PGP SIGNATURE-----')
                # the last occurrence is the real signature block only if all earlier ones were escaped
                for l in body_lines[start:end]:
                    ctx.count('dash_lines_checked')
                    if l.startswith('-') and not l.startswith('- '):
                        ctx.fail('line-needing-dash-escape-written-unescaped', dict(where, line=l[:60]))
                if 'Hash: ' + d['hash'] not in body_lines[1]:
                    ctx.fail('hash-header-missing-or-wrong', dict(where, header=body_lines[1][:60]))
            except ValueError:
                ctx.fail('cleartext-template-malformed', where)
            # read back by PGPy
            for form, data in (('str', wire_text), ('bytes', wire_text.encode('utf-8'))):
                try:
                    m2 = pgpy.PGPMessage.from_blob(data)
                    got = m2.message
                except Exception as e:
                    ctx.fail('cleartext-message-cannot-be-read-back', dict(where, form=form, err='%s: %s' % (type(e).__name__, str(e)[:120])))
                    continue
                ctx.count('pgpy_made_read_back')
                if norm(got) != norm(text) or (teol == '\n' and got != text):
                    ctx.fail('text-read-back-differs', dict(where, form=form, got=got[:200]))
                if sorted(hx(bytes(s)) for s in m2.signatures) != sorted(hx(bytes(s)) for s in m.signatures):
                    ctx.fail('signatures-lost-or-changed', dict(where, form=form))
                for pub in pubs:
                    res, _ = sigwork.pgpy_verify(pub, m2)
                    if res != 'true':
                        ctx.fail('cleartext-signature-fails-after-read-back', dict(where, form=form, result=res))
            # independent implementation reads and verifies PGPy's output
            try:
                rlines, rres, rd = ref_verify_cleartext(wire_text, mats)
                if '\n'.join(rlines) != norm(text):
                    ctx.fail('reference-reads-different-text', dict(where, got='\n'.join(rlines)[:200]))
                if not rres or not all(ok for ok, _ in rres):
                    # differential classification: would it verify if trailing blanks were signed?
                    ctx.fail('reference-rejects-pgpy-cleartext-signature', dict(where, why=[w for ok, w in rres if not ok][:2],
                                                                                  verifies_if_trailing_blanks_were_signed=all(ok for ok, _ in ref_verify_cleartext(wire_text, mats, 'keep_blanks')[1])))
                else:
                    ctx.count('pgpy_made_ref_verified')
            except wire.Malformed as e:
                ctx.fail('reference-cannot-read-pgpy-cleartext-message', dict(where, err=str(e)))
        # ---------------- direction B: the reference writes, PGPy reads and verifies
        ctx.count('evaluations')
        rtext = ref_make_cleartext(norm(text), mats, sigwork.HASHES[d['hash']], d['eol'])
        # sanity of the reference on its own output
        if not all(ok for ok, _ in ref_verify_cleartext(rtext, mats)[1]):
            ctx.count('case_crashes')
            continue
        try:
            m3 = pgpy.PGPMessage.from_blob(rtext)
            got = m3.message
        except Exception as e:
            ctx.fail('reference-cleartext-message-cannot-be-read', dict(where, err='%s: %s' % (type(e).__name__, str(e)[:120])))
            continue
        if got != norm(text):
            ctx.fail('text-of-reference-message-read-differently', dict(where, got=got[:200]))
        good = True
        for pub in pubs:
            res, _ = sigwork.pgpy_verify(pub, m3)
            if res != 'true':
                good = False
                ctx.fail('pgpy-rejects-reference-cleartext-signature', dict(where, result=res, trailing_blanks=any(l != l.rstrip(' \t') for l in lines)))
        if good:
            ctx.count('ref_made_pgpy_verified')
    if len(ctx.samples) < 3:
        ctx.sample({'texts': d['texts'][:2], 'eol': repr(d['eol']), 'hash': d['hash']})


def _gpg(ctx, d, pgpy):
    r = ctx.rng('gpg', d['seed'])
    with gpgx.Home() as g:
        k = sigwork.signer_key('ed25519_0')
        g.import_key(bytes(k))
        fpr = str(k.fingerprint)
        for i in range(d['n']):
            lines = [r.choice(ALPHABET) for _ in range(r.randint(1, 6))]
            text = '\n'.join(lines) + '\n'
            ctx.count('evaluations')
            where = {'text': text[:200]}
            m = pgpy.PGPMessage.new(text, cleartext=True)
            m |= k.sign(m)
            try:
                out = str(m)
                ok, e = g.verify_inline(out.encode('utf-8'))
                ctx.count('gpg_checked_pgpy_cleartext')
                if not ok:
                    ctx.fail('gpg-rejects-pgpy-cleartext-signature', dict(where, gpg=e[-200:], trailing_blanks=any(l != l.rstrip(' \t') for l in lines)))
            except Exception as e:
                ctx.fail('cleartext-message-cannot-be-written', dict(where, err=repr(e)[:120]))
            gs = g.sign(text.encode('utf-8'), fpr, '--clearsign')
            if gs is None:
                ctx.observe('gpg_clearsign_failed')
                continue
            try:
                m2 = pgpy.PGPMessage.from_blob(gs)
                res, _ = sigwork.pgpy_verify(k.pubkey, m2)
            except Exception as e:
                res = 'error:' + type(e).__name__
            ctx.count('gpg_made_cleartext_checked')
            if res != 'true':
                ctx.fail('pgpy-rejects-gpg-cleartext-signature', dict(where, result=res, trailing_blanks=any(l != l.rstrip(' \t') for l in lines), non_ascii=not text.isascii()))
    ctx.nontrivial(d)
