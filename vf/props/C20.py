"""C20 -- messages are well-formed OpenPGP compositions and keep content and metadata.

Reference-model monitor: bytes(message) of every message PGPy builds (content classes x format x filename x time x compressor x 0..4 signers
added in any order at equal or differing times x signing before/after encryption x decrypt-then-re-export) is parsed by the independent
packet parser and recognised against the RFC 4880 11.3 grammar (recursing into compressed and, with the session key, encrypted containers);
one-pass packets are compared with the trailing signatures (number, reverse order, type, algorithms, issuer, only the last marked final);
the export is imported back (binary and armor) and compared field by field; foreign framings of the same composition must import equally.
"""
import copy
import warnings
from datetime import datetime, timezone, timedelta

from ..core import hx
from ..ref import wire, sym, grammar, sig as RS, armor
from .. import pool, sigwork, encwork, gpgx

W0_COUNTER = 'C20_message_exports'   # thorough tier: the repository's own tests run under this property's always-on monitor
LEVEL = 'exploration'
RULE = ('case = (content class, format, filename, time, compressor, signer list and order, equal/differing signature times, encryption stage, transport); one '
        'evaluation per export parsed + per import compared; non-trivial = at least one signer or a compressor or encryption; distinct = distinct case descriptors')
ASSUMPTIONS = ['vf.ref.grammar recogniser of RFC 4880 11.3', 'zlib / bz2 decompressors']
MIN_COUNTERS = {'quick': {'exports_recognised': 300, 'onepass_sets_checked': 150, 'imports_compared': 400, 'compressors_seen': 4, 'foreign_framings': 50},
                'thorough': {'exports_recognised': 4000}}
BUDGET = {'quick': (600, 1500), 'thorough': (1800, 3600)}
TECHNIQUE = 'runtime monitoring: grammar-recogniser monitor (independent RFC 4880 11.3 parser) + differential import comparison'

SIGNERS = ['ed25519_0', 'rsa1024_0', 'dsa1024_0', 'ecdsa_p256_0', 'ecdsa_k256_0', 'rsa1024_1+alg3']   # the last: RSA under the deprecated sign-only identifier
CONTENTS = ['empty', 'ascii', 'utf8', 'latin1', 'binary', 'crlf', 'big', 'far', 'latin1x', 'utf16', 'cp1252']


def cases(tier, seed):
    import random
    r = random.Random(seed)
    cs = []
    n = 260 if tier == 'quick' else 4000
    for i in range(n):
        ns = r.choice([0, 1, 1, 2, 3, 4])
        cs.append({'i': i, 'content': r.choice(CONTENTS) if (tier != 'quick' or i % 40) else 'big', 'format': r.choice([None, None, 'b', 't', 'u']),
                   'filename': r.choice([None, None, 'plain.txt', 'ünï 日本.txt', 'x' * 85 + '.dat', 'CONSOLE']), 'mtime': r.choice([1, 86400 * 366, 2 ** 31 + 9, 1600000000]),
                   'comp': r.choice(encwork.COMPRESSIONS), 'signers': r.sample(SIGNERS, ns), 'same_time': r.random() < 0.4,
                   'encrypt': r.choice([None, None, 'key', 'pass', 'key-then-sign']), 'hashes': [r.choice(list(sigwork.HASHES)) for _ in range(ns)]})
    # megabytes under every compression algorithm (sizes around the points where a length-dependent parameter could change: 0.9, 1.0, 2 MiB)
    for j, comp in enumerate(encwork.COMPRESSIONS):
        for k_, content in enumerate(['huge', 'huge2', 'zeros1m', 'far'] if tier == 'quick' else ['huge', 'huge2', 'zeros1m', 'far', 'huge3']):
            cs.append({'i': 100000 + 10 * j + k_, 'content': content, 'format': 'b', 'filename': None, 'mtime': 1, 'comp': comp, 'signers': SIGNERS[:(j + k_) % 2], 'same_time': False,
                       'encrypt': [None, 'key'][(j + k_) % 2] if content == 'huge' else None, 'hashes': ['SHA256'][:(j + k_) % 2]})
    for i in range(8):
        cs.append({'foreign': i, 'seed': seed})
    return cs


def content_of(name, r):
    if name == 'empty':
        return b'', None
    if name == 'ascii':
        return 'plain ascii\ntext with lines\n', None
    if name == 'utf8':
        return 'ünïcödé 日本語 \U0001F600\nzweite Zeile', None
    if name == 'latin1':
        return 'latin1 text: é ü ß'.encode('latin-1'), 'latin-1'
    # octets in a stated charset that would ALSO read as UTF-8 (to something else): the statement of the caller decides
    if name == 'latin1x':
        return 'price Â£5, cafÃ© â\x80\x99'.encode('latin-1'), 'latin-1'
    if name == 'utf16':
        return 'plain words\nsecond line'.encode('utf-16-le'), 'utf-16-le'
    if name == 'cp1252':
        return 'itâ€™s â€œquotedâ€\x9d'.encode('cp1252', 'ignore') + 'Ã¼'.encode('cp1252'), 'cp1252'
    if name == 'binary':
        return bytes(r.getrandbits(8) for _ in range(700)) + b'\x00\r\n\xff', None
    if name == 'crlf':
        return 'line one\r\nline two\rline three\n', None
    if name == 'zeros1m':
        return b'\x00' * 1000000, None
    if name == 'huge':
        return bytes(r.getrandbits(8) for _ in range(1024)) * 1200, None          # 1.2 MB
    if name == 'huge2':
        return bytes(r.getrandbits(8) for _ in range(997)) * 903 + b'tail', None   # just over 900,000 octets
    if name == 'far':
        # repeats that lie 9 000 to 30 000 octets back: a compressor uses them only with the full 32 KiB window, and only such a window can read them
        blk = bytes(r.getrandbits(8) for _ in range(30000))
        return blk + blk[:21000] + blk[9000:] + blk[100:12000], None
    if name == 'huge3':
        return bytes(r.getrandbits(8) for _ in range(4096)) * 600, None            # 2.4 MB
    return bytes(r.getrandbits(8) for _ in range(1024)) * 600, None


def build(d, r):
    import pgpy
    from pgpy.constants import CompressionAlgorithm, HashAlgorithm
    content, charset = content_of(d['content'], r)
    md = {'body': 'ascii', 'comp': d['comp']}
    kw = {'compression': getattr(CompressionAlgorithm, d['comp'])}
    fmt = d['format']
    if isinstance(content, bytes) and fmt in ('t', 'u') and d['content'] in ('binary', 'big', 'huge', 'huge2', 'huge3', 'zeros1m', 'far', 'latin1') and not charset:
        fmt = 'b'
    if charset:
        kw['encoding'] = charset
        fmt = fmt if fmt in ('t', 'u') else 't'
    if fmt:
        kw['format'] = fmt
    if d['filename'] == 'CONSOLE':
        kw['sensitive'] = True
    elif d['filename']:
        import os
        sub = os.path.join(os.environ.get('VERIF_SCRATCH') or '/tmp', 'm%d' % os.getpid())
        os.makedirs(sub, exist_ok=True)
        path = os.path.join(sub, d['filename'])
        with open(path, 'wb') as f:
            f.write(content.encode(charset or 'utf-8') if isinstance(content, str) else content)
        os.utime(path, (d['mtime'], d['mtime']))
        try:
            m = pgpy.PGPMessage.new(path, file=True, **kw)
        finally:
            os.unlink(path)
        return m, content, charset
    m = pgpy.PGPMessage.new(content, **kw)
    return m, content, charset


def expected_octets(content, charset, fmt):
    if isinstance(content, str):
        return content.encode('utf-8')
    if charset and fmt in ('t', 'u'):
        return content.decode(charset).encode('utf-8')
    return content


def check_export(ctx, blob, d, nsig, where, session=None):
    """grammar + one-pass discipline; -> literal fields or None"""
    try:
        tree = grammar.parse_message(wire.split(blob))
    except (wire.Malformed, grammar.NotGrammatical) as e:
        ctx.fail('export-not-derivable-from-message-grammar', dict(where, err=str(e), packets=_tags(blob)))
        return None
    ctx.count('exports_recognised')
    ctx.count('evaluations')
    node = tree
    if node['kind'] == 'encrypted':
        if session is None:
            return node
        alg, key = session
        pt, _ = encwork.open_data(node['data'], alg, key)
        return check_export(ctx, pt, d, nsig, dict(where, inside='encrypted container'))
    if d['comp'] != 'Uncompressed':
        if node['kind'] != 'compressed':
            ctx.fail('compression-does-not-wrap-the-whole-message', dict(where, outer=node['kind'], packets=_tags(blob)))
            return None
        if node['alg'] != {'ZIP': 1, 'ZLIB': 2, 'BZ2': 3}[d['comp']]:
            ctx.fail('wrong-compression-algorithm-octet', dict(where, alg=node['alg']))
        ctx.flags.setdefault('compressors', {})[d['comp']] = 1
        node = node['inner']
    else:
        ctx.flags.setdefault('compressors', {})['Uncompressed'] = 1
        if node['kind'] == 'compressed':
            ctx.fail('uncompressed-message-exported-compressed', where)
            node = node['inner']
    layers, inner = grammar.flatten_signed(node)
    if inner['kind'] != 'literal':
        ctx.fail('no-single-literal-at-the-core', dict(where, kind=inner['kind']))
        return None
    if len(layers) != nsig:
        ctx.fail('number-of-signatures-differs', dict(where, got=len(layers), expected=nsig))
    if layers:
        ctx.count('onepass_sets_checked')
        for depth, (ops, sigpkt) in enumerate(layers):
            if ops is None:
                ctx.fail('signature-without-one-pass-packet', dict(where, depth=depth))
                continue
            s = RS.parse_sig(sigpkt.body, strict=False)
            # the grammar pairs the i-th one-pass packet with the i-th signature from the end: fields must correspond
            if (ops['type'], ops['halg'], ops['pubalg'], ops['keyid']) != (s['type'], s['halg'], s['pubalg'], RS.issuer(s)):
                ctx.fail('one-pass-packet-does-not-describe-its-signature', dict(where, depth=depth, ops={k: (hx(v) if isinstance(v, bytes) else v) for k, v in ops.items()},
                                                                             sig=[s['type'], s['halg'], s['pubalg'], hx(RS.issuer(s) or b'')]))
            last = depth == len(layers) - 1
            if bool(ops['last']) != last:
                ctx.fail('one-pass-final-flag', dict(where, depth=depth, of=len(layers), flag=ops['last'], expected=int(last)))
    return inner['lit']


def _tags(blob):
    try:
        return [p.tag for p in wire.split(blob)]
    except wire.Malformed:
        return 'unsplittable'


def fields_of(m):
    lit = m._message
    msg_ = m.message
    return {'content': bytes(lit._contents), 'filename': lit.filename, 'mtime': int(lit.mtime.timestamp()), 'format': lit.format, 'compression': int(m._compression),
            'signatures': sorted(hx(bytes(s)) for s in m.signatures),
            # what the public accessors say (the object's boundary), beside what the packet holds
            'api_filename': m.filename, 'api_sensitive': m.is_sensitive, 'api_compressed': m.is_compressed,
            'api_message': hx(msg_.encode('utf-8', 'surrogateescape') if isinstance(msg_, str) else bytes(msg_))[:2000]}


def run_case(ctx, d):
    import pgpy
    with warnings.catch_warnings():
        warnings.simplefilter('ignore')
        if 'foreign' in d:
            return _foreign(ctx, d, pgpy)
        _case(ctx, d, pgpy)


def _case(ctx, d, pgpy):
    from pgpy.constants import HashAlgorithm, SymmetricKeyAlgorithm
    r = ctx.rng('c20', d['i'])
    where = {'case': {k: v for k, v in d.items()}}
    m, content, charset = build(d, r)
    fmt = m._message.format
    t0 = datetime(2022, 2, 2, 2, 2, 2, tzinfo=timezone.utc)
    stage = d['encrypt']
    rk, rm = encwork.recipient('cv25519_0')
    def sign_all(msg):
        for j, (s, h) in enumerate(zip(d['signers'], d['hashes'])):
            k = sigwork.signer_key(s)
            msg |= k.sign(msg, hash=getattr(HashAlgorithm, h), created=t0 + timedelta(seconds=0 if d['same_time'] else j * (7 if j % 2 else -5)))
            if not msg.is_encrypted and j + 1 < len(d['signers']):
                # the export after every single addition is a message of the grammar too (and an unchanged copy exports identically)
                ctx.count('intermediate_exports')
                check_export(ctx, bytes(msg), d, j + 1, dict(where, stage='after signer %d of %d' % (j + 1, len(d['signers']))))
                if bytes(copy.copy(msg)) != bytes(msg):
                    ctx.fail('copy-of-message-exports-differently', dict(where, stage='after signer %d' % (j + 1)))
        return msg
    if stage != 'key-then-sign':
        m = sign_all(m)
    nsig = len(d['signers']) if stage != 'key-then-sign' else 0
    # --- the plain (signed) message
    blob = bytes(m)
    lit = check_export(ctx, blob, d, nsig, where)
    exp = expected_octets(content, charset, fmt)
    if lit is not None:
        if lit['data'] != exp:
            ctx.fail('literal-octets-differ-from-content', dict(where, got=hx(lit['data'][:40]), expected=hx(exp[:40]), lens=[len(lit['data']), len(exp)]))
        if d['filename'] == 'CONSOLE':
            if lit['filename'] != b'_CONSOLE':
                ctx.fail('for-your-eyes-only-marker', dict(where, filename=repr(lit['filename'])))
        elif d['filename']:
            if lit['filename'].decode('utf-8', 'replace') != d['filename'] or lit['mtime'] != d['mtime']:
                ctx.fail('literal-metadata-differs', dict(where, filename=repr(lit['filename']), mtime=lit['mtime']))
        if lit['format'] != fmt.encode():
            ctx.fail('literal-format-differs', dict(where, got=repr(lit['format'])))
    # --- import back (binary + armor) and compare
    f0 = fields_of(m)
    for form, data in (('binary', blob), ('armor', str(m))):
        ctx.count('imports_compared')
        ctx.count('evaluations')
        try:
            m2 = pgpy.PGPMessage.from_blob(data)
            f2 = fields_of(m2)
        except Exception as e:
            ctx.fail('own-message-export-not-importable', dict(where, form=form, err='%s: %s' % (type(e).__name__, str(e)[:160])))
            continue
        if f2 != f0:
            ctx.fail('imported-message-differs', dict(where, form=form, fields=[k for k in f0 if f0[k] != f2[k]]))
        if m2.message != m.message:
            ctx.fail('message-content-attribute-differs-after-import', dict(where, form=form))
        if bytes(m2) != blob:
            # signatures made in the same second may come back in another order: the property asks for the same multiset
            ctx.observe('second_export_orders_equal_time_signatures_differently' if d['same_time'] and len(d['signers']) > 1 else 'second_export_differs')
            if not (d['same_time'] and len(d['signers']) > 1):
                ctx.fail('second-export-differs', dict(where, form=form, tags=[_tags(blob), _tags(bytes(m2))]))
        for s in (d['signers'] if stage != 'key-then-sign' else []):
            res, _ = sigwork.pgpy_verify(sigwork.signer_key(s).pubkey, m2)
            if res != 'true':
                ctx.fail('message-signature-fails-after-import', dict(where, form=form, signer=s, result=res))
    # --- encryption stages
    if stage in ('key', 'pass', 'key-then-sign'):
        sk = bytes(r.getrandbits(8) for _ in range(32))
        if stage == 'pass':
            enc = m.encrypt('c20 pass', sessionkey=sk, cipher=SymmetricKeyAlgorithm.AES256)
        else:
            enc = rk.pubkey.encrypt(m, sessionkey=sk, cipher=SymmetricKeyAlgorithm.AES256)
        if stage == 'key-then-sign':
            # signatures added to an encrypted message
            enc = sign_all(enc)
        eblob = bytes(enc)
        if stage == 'key-then-sign':
            # Signed Message :- Signature Packet, OpenPGP Message -- here the signed message is the encrypted one
            try:
                tree = grammar.parse_message(wire.split(eblob))
                layers, inner = grammar.flatten_signed(tree)
                ctx.count('exports_recognised')
                if inner['kind'] != 'encrypted' or len(layers) != len(d['signers']):
                    ctx.fail('signed-encrypted-message-structure', dict(where, inner=inner['kind'], layers=len(layers), packets=_tags(eblob)))
                m3 = pgpy.PGPMessage.from_blob(eblob)
                if sorted(hx(bytes(s_)) for s_ in m3.signatures) != sorted(hx(bytes(s_)) for s_ in enc.signatures) or not m3.is_encrypted:
                    ctx.fail('signed-encrypted-message-differs-after-import', where)
                if fields_of(rk.decrypt(m3)) != f0:
                    ctx.fail('decrypted-message-differs', dict(where, stage=stage))
            except (wire.Malformed, grammar.NotGrammatical) as e:
                ctx.fail('export-not-derivable-from-message-grammar', dict(where, stage='signed encrypted message', err=str(e), packets=_tags(eblob)))
            ctx.nontrivial(d)
            return
        node = check_export(ctx, eblob, d, nsig, dict(where, stage='encrypted'), session=None)
        if node is not None and isinstance(node, dict) and node.get('kind') == 'encrypted':
            if len(node['esk']) != 1:
                ctx.fail('encrypted-message-esk-count', dict(where, n=len(node['esk'])))
            check_export(ctx, eblob, d, nsig if stage != 'key-then-sign' else 0, dict(where, stage='inside'), session=(9, sk))
        if stage != 'key-then-sign':
            dec = rk.decrypt(pgpy.PGPMessage.from_blob(eblob)) if stage == 'key' else pgpy.PGPMessage.from_blob(eblob).decrypt('c20 pass')
            if fields_of(dec) != f0:
                ctx.fail('decrypted-message-differs', dict(where, fields=[k for k in f0 if f0[k] != fields_of(dec)[k]]))
            # decrypt-then-re-export must again be a grammatical message equal to the original export
            rblob = bytes(dec)
            lit2 = check_export(ctx, rblob, d, nsig, dict(where, stage='re-export of decrypted message'))
            if lit2 is not None and rblob != blob and not (d['same_time'] and len(d['signers']) > 1):
                ctx.fail('re-export-of-decrypted-message-differs', dict(where, tags=[_tags(blob), _tags(rblob)]))
    if d['signers'] or d['comp'] != 'Uncompressed' or stage:
        ctx.nontrivial(d)
    if len(ctx.samples) < 4:
        ctx.sample({'case': d, 'export_packet_tags': _tags(blob)})


def _foreign(ctx, d, pgpy):
    """the same composition written by another producer: old-format headers, partial lengths, gpg output"""
    r = ctx.rng('foreign', d['foreign'], d['seed'])
    for n in range(10):
        data = bytes(r.getrandbits(8) for _ in range(r.choice([0, 5, 600, 3000])))
        # names as other producers write them: with directory parts, separators of either kind, dots, a trailing separator
        fn = r.choice([b'', b'f.bin', 'ü.txt'.encode('utf-8'), b'docs/2024/report.txt', b'/etc/motd', b'spool/', b'C:\\dir\\file.txt', b'../up.txt', b'.hidden', b'a b  c.txt', b'_CONSOLE'])
        mt = r.choice([0, 1234567890])
        signers = r.sample(SIGNERS[:3], r.randint(0, 2))
        body = b'b' + bytes([len(fn)]) + fn + mt.to_bytes(4, 'big') + data
        form = r.choice(['old', 'new', 'partial', 'indeterminate'])
        if form == 'partial' and len(body) >= 600:
            lit = wire.partial_body(11, body, [9])
        elif form == 'old':
            lit = wire.old_hdr(11, len(body)) + body
        else:
            lit = wire.new_hdr(11, len(body)) + body
        sigs = []
        for s in signers:
            sm = pool.mat(s)
            h, u = RS.std_areas(sm, 1600000000 + n)
            sb = RS.sign(sm, 0, 8, h, u, doc=data)
            sigs.append((sm, sb))
        seq = b''
        for i, (sm, sb) in enumerate(reversed(sigs)):
            ops = bytes([3, 0, 8, sm['alg']]) + RS.issuer(RS.parse_sig(sb)) + bytes([1 if i == len(sigs) - 1 else 0])
            seq += (wire.old_hdr(4, 13) if form == 'old' else wire.new_hdr(4, 13)) + ops
        seq += lit
        for sm, sb in sigs:
            seq += (wire.old_hdr(2, len(sb)) if form == 'old' else wire.new_hdr(2, len(sb))) + sb
        calg = r.choice([0, 1, 2, 3])
        if calg:
            cd = bytes([calg]) + sym.compress(calg, seq, r.choice([1, 9]))
            seq = (wire.old_hdr(8, 0, 3) + cd) if form == 'indeterminate' else wire.new_hdr(8, len(cd)) + cd
        ctx.count('foreign_framings')
        ctx.count('evaluations')
        where = {'foreign': form, 'calg': calg, 'signers': signers, 'len': len(data)}
        # half of them arrive armored, the way other producers armor: line widths up to the 76 columns the RFC allows, LF or CRLF, foreign header lines
        transport = r.choice(['binary', 'binary', 'armor76', 'armor64', 'armor72-crlf', 'armor48-headers'])
        where['transport'] = transport
        data_in = seq
        if transport != 'binary':
            from ..ref import armor as _armor
            wd = int(transport[5:7])
            data_in = _armor.armor('MESSAGE', seq, headers=[('Version', 'Other 2.0'), ('Comment', 'made elsewhere')] if 'headers' in transport else (),
                                   width=wd, eol='\r\n' if 'crlf' in transport else '\n')
            ctx.count('foreign_armored')
        try:
            m = pgpy.PGPMessage.from_blob(data_in)
        except Exception as e:
            ctx.fail('foreign-message-not-importable', dict(where, err='%s: %s' % (type(e).__name__, str(e)[:160]), blob=hx(seq)[:200]))
            continue
        try:
            f = fields_of(m)
        except Exception as e:
            ctx.fail('foreign-message-fields-unreadable', dict(where, err=repr(e)[:160]))
            continue
        if f['api_filename'] != fn.decode('utf-8') or f['api_sensitive'] != (fn == b'_CONSOLE') or f['api_compressed'] != bool(calg):
            ctx.fail('foreign-message-imports-differently', dict(where, accessor_filename=f['api_filename'], in_the_packet=fn.decode('utf-8'), sensitive=f['api_sensitive'], compressed=f['api_compressed']))
        if f['content'] != data or f['filename'] != fn.decode('utf-8') or f['mtime'] != mt or f['compression'] != calg or len(f['signatures']) != len(sigs):
            ctx.fail('foreign-message-imports-differently', dict(where, got={k: (v if k != 'content' else len(v)) for k, v in f.items() if k != 'signatures'}))
        for s in signers:
            res, _ = sigwork.pgpy_verify(sigwork.signer_key(s).pubkey, m)
            if res != 'true':
                ctx.fail('foreign-message-signature-rejected', dict(where, signer=s, result=res))
        # and what PGPy writes for it is grammatical again
        dd = {'comp': {0: 'Uncompressed', 1: 'ZIP', 2: 'ZLIB', 3: 'BZ2'}[calg]}
        check_export(ctx, bytes(m), dd, len(sigs), dict(where, stage='re-export of foreign message'))
    ctx.nontrivial(d)


def post_merge(counters, flags):
    counters['compressors_seen'] = len(flags.get('compressors', {}))
