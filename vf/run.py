"""CLI:  python -m vf.run Cxx [quick|thorough]   |   python -m vf.run Cxx --replay <file>
Shards the property's case list over worker subprocesses, merges what the monitors observed, applies the
known-findings file, writes evidence/<id>.json and prints the verdict lines.

exit 0  held on everything explored (possibly with KNOWN-FINDING lines)
exit 1  VIOLATION property=<id> replay=<path>
exit 2  INCONCLUSIVE property=<id> reason=...   (deciding monitor never reached / all workers lost)
"""
import collections
import hashlib
import json
import os
import subprocess
import sys
import tempfile
import time
import shutil

from . import core

BUDGET = {'quick': (100, 600), 'thorough': (1500, 3600)}   # (soft per-worker budget s, hard watchdog s)


def main(argv):
    if len(argv) < 1 or argv[0] not in core.PROPS:
        print('usage: check Cxx [quick|thorough] | check Cxx --replay <file>')
        return 2
    prop = argv[0]
    if len(argv) >= 3 and argv[1] == '--replay':
        return replay(prop, argv[2])
    tier = argv[1] if len(argv) > 1 else os.environ.get('VERIF_TIER', 'quick')
    if tier not in BUDGET:
        tier = 'quick'
    seed = int(os.environ.get('VERIF_SEED', '0') or 0)
    jobs = int(os.environ.get('VERIF_JOBS', '0') or 0) or (os.cpu_count() or 4)
    t0 = time.time()
    core.setup_path()
    mod = core.load_prop(prop)
    soft, hard = getattr(mod, 'BUDGET', BUDGET)[tier]
    hard = int(os.environ.get('VERIF_HARD', hard))
    jobs = min(jobs, getattr(mod, 'MAX_JOBS', 64))
    scratch = tempfile.mkdtemp(prefix='vf')
    env = dict(os.environ)
    env['PYTHONHASHSEED'] = '0'
    env['PYTHONDONTWRITEBYTECODE'] = '1'
    env['VERIF_SCRATCH'] = scratch
    env.setdefault('TZ', 'UTC')
    procs = []
    try:
        for sh in range(jobs):
            out = os.path.join(scratch, 'w%d.json' % sh)
            log = open(os.path.join(scratch, 'w%d.log' % sh), 'wb')
            p = subprocess.Popen([sys.executable, '-B', '-m', 'vf.worker', prop, tier, str(seed), str(sh), str(jobs), out, str(soft)],
                                 cwd=core.VERIF, env=env, stdout=log, stderr=subprocess.STDOUT)
            procs.append((p, out, log))
        results = []
        lost = []
        deadline = t0 + hard
        for sh, (p, out, log) in enumerate(procs):
            try:
                p.wait(timeout=max(1, deadline - time.time()))
            except subprocess.TimeoutExpired:
                p.kill()
                p.wait()
                log.flush()
                tail = open(os.path.join(scratch, 'w%d.log' % sh), 'rb').read()[-1500:].decode('latin-1')
                lost.append((sh, 'watchdog: ' + tail))
                continue
            finally:
                log.close()
            if p.returncode != 0 or not os.path.exists(out):
                tail = open(os.path.join(scratch, 'w%d.log' % sh), 'rb').read()[-800:].decode('latin-1')
                lost.append((sh, 'exit %s: %s' % (p.returncode, tail)))
                continue
            results.append(json.load(open(out)))
        return conclude(prop, tier, seed, mod, results, lost, jobs, time.time() - t0)
    finally:
        for p, _, _ in procs:
            if p.poll() is None:
                p.kill()
        shutil.rmtree(scratch, ignore_errors=True)


def conclude(prop, tier, seed, mod, results, lost, jobs, wall):
    counters = collections.Counter()
    outcomes = collections.Counter()
    observations = collections.Counter()
    samples = []
    digests = set()
    violations = []
    findings = {}
    flags = {}
    crashes = []
    for r in results:
        counters.update(r['counters'])
        outcomes.update(r['outcomes'])
        observations.update(r['observations'])
        for s in r['samples']:
            if len(samples) < 8:
                samples.append(s)
        digests.update(r['digests'])
        violations += r['violations']
        for m, f in r['findings'].items():
            g = findings.setdefault(m, {'n': 0, 'witness': f['witness']})
            g['n'] += f['n']
        for k, v in r['flags'].items():
            if k == 'crashes':
                crashes += v
            elif isinstance(v, dict) and isinstance(flags.get(k), dict):
                flags[k].update(v)
            else:
                flags[k] = v
    if hasattr(mod, 'post_merge'):
        mod.post_merge(counters, flags)
    known = core.load_known()
    lines = []
    kf_out = {}
    # findings whose mechanism is not listed as status "known" are violations
    for m, f in sorted(findings.items()):
        ent = known.get((prop, m))
        if ent is not None and ent.get('status') == 'known':
            lines.append('KNOWN-FINDING: property=%s %s: %s (n=%d)' % (prop, m, ent.get('what', ''), f['n']))
            kf_out[m] = f['n']
        else:
            w = dict(f['witness'])
            w['kind'] = '%s [mechanism %s not listed as known]' % (w.get('kind'), m)
            violations.append(w)
    # one replay file per distinct violation kind
    rdir = os.path.join(os.environ.get('VERIF_REPLAY_DIR') or os.path.join(core.VERIF, 'replay'), prop)
    vkinds = collections.OrderedDict()
    for v in violations:
        vkinds.setdefault(v['kind'], v)
    vlines = []
    kcount = collections.Counter(v['kind'] for v in violations)
    if os.environ.get('VERIF_DEBUG'):
        for v in violations:
            print('  DEBUG', v['kind'], json.dumps(v['detail'], default=str)[:int(os.environ.get('VERIF_DEBUG_W', '300'))])
    for kind, v in list(vkinds.items())[:10]:
        os.makedirs(rdir, exist_ok=True)
        blob = json.dumps({'property': prop, 'tier': tier, 'seed': seed, 'kind': kind, 'detail': v['detail'], 'case': v['case']},
                          indent=1, default=str)
        path = os.path.join(rdir, hashlib.sha1(blob.encode()).hexdigest()[:12] + '.json')
        open(path, 'w').write(blob)
        vlines.append('VIOLATION property=%s replay=%s' % (prop, path))
        lines.append('  kind=%s (x%d among recorded) detail=%s' % (kind, kcount[kind], json.dumps(v['detail'], default=str)[:600]))
    # inconclusive?
    reasons = []
    need = getattr(mod, 'MIN_COUNTERS', {})
    if isinstance(need, dict) and isinstance(need.get('quick'), dict):
        need = need['quick']      # the thorough tier contains the quick workload: the same floors apply
    for k, n in need.items():
        if counters.get(k, 0) < n:
            reasons.append('monitor %s observed %d < %d' % (k, counters.get(k, 0), n))
    if not results:
        reasons.append('no worker finished')
    if crashes:
        reasons.append('%d harness crashes, e.g. %s' % (len(crashes), crashes[0]['error'][:200]))
    if lost:
        # a worker that died or hung took its share of the cases with it: what they would have shown is unknown
        reasons.append('%d of %d workers lost (%s)' % (len(lost), jobs, lost[0][1][-160:].replace('\n', ' | ')))
    evaluations = int(counters.get('evaluations', counters.get('cases_run', 0)))
    coverage = {
        'evaluations': max(evaluations, 0),
        'distinct_nontrivial': len(digests),
        'rule': getattr(mod, 'RULE', ''),
        'samples': samples or [{'note': 'no sample recorded'}],
        'monitor_events': {k: v for k, v in sorted(counters.items())},
        'outcomes': dict(sorted(outcomes.items())),
        'observations_not_judged': dict(sorted(observations.items())),
        'known_findings': kf_out,
        'workers': {'launched': jobs, 'finished': len(results), 'lost': [list(x) for x in lost]},
        'cases': {'generated': flags.get('ncases_all'), 'run': counters.get('cases_run', 0),
                  'skipped_for_budget': counters.get('cases_skipped_budget', 0)},
        'inconclusive_reasons': reasons,
        'verdict': 'violated' if vlines else ('inconclusive' if reasons else 'held on what was explored'),
    }
    for k in ('exhaustive', 'capabilities', 'oracle_validation', 'states', 'transitions', 'w0'):
        if k in flags:
            coverage[k] = flags[k]
    if hasattr(mod, 'coverage_extra'):
        coverage.update(mod.coverage_extra(counters, flags))
    ev = {'property_id': prop, 'tier': tier, 'seed': seed, 'level': getattr(mod, 'LEVEL', 'exploration'),
          'coverage': coverage, 'assumptions': getattr(mod, 'ASSUMPTIONS', []), 'wall_s': round(wall, 2), 'violations': len(vkinds)}
    err = core.validate_evidence(ev)
    evdir = os.environ.get('VERIF_EVIDENCE_DIR') or os.path.join(core.VERIF, 'evidence')   # redirected only by the mutant self-test driver
    os.makedirs(evdir, exist_ok=True)
    json.dump(ev, open(os.path.join(evdir, prop + '.json'), 'w'), indent=1, default=str)
    for l in lines:
        print(l)
    summary = '%s %s seed=%d: %s; evaluations=%d distinct=%d cases=%s/%s wall=%.1fs' % (
        prop, tier, seed, coverage['verdict'], coverage['evaluations'], len(digests), counters.get('cases_run', 0), flags.get('ncases_all'), wall)
    if vlines:
        for l in vlines:
            print(l)
        print(summary)
        return 1
    if reasons or err:
        print('INCONCLUSIVE property=%s reason=%s' % (prop, '; '.join(reasons + ([err] if err else []))))
        for c in crashes[:2]:
            print(c['tb'])
        print(summary)
        return 2
    if lost:
        print('note: %d worker(s) lost (%s); verdict rests on the finished ones' % (len(lost), lost[0][1][:200]))
    print(summary)
    return 0


def replay(prop, path):
    core.setup_path()
    mod = core.load_prop(prop)
    w = json.load(open(path))
    ctx = core.Ctx(prop, w.get('tier', 'quick'), w.get('seed', 0), replay=True)
    ctx.mod = mod
    ctx.case = w['case']
    print('replaying %s case: %s' % (prop, json.dumps(w['case'])[:400]))
    mod.run_case(ctx, w['case'])
    known = core.load_known()
    bad = len(ctx.violations)
    for m, f in ctx.findings.items():
        ent = known.get((prop, m))
        if ent and ent.get('status') == 'known':
            print('KNOWN-FINDING: property=%s %s: %s' % (prop, m, ent.get('what', '')))
        else:
            bad += 1
            print('  FAIL (mechanism %s not listed as known): %s' % (m, json.dumps(f['witness']['detail'], default=str)[:800]))
    if bad:
        print('VIOLATION property=%s replay=%s' % (prop, path))
        return 1
    print('replay: no violation reproduced')
    return 0


if __name__ == '__main__':
    sys.exit(main(sys.argv[1:]))
