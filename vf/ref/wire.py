"""Oracle A: primitive wire codecs of RFC 4880, written from the RFC text.

Never imports pgpy.  Sections: 4.2 (packet headers), 4.2.2.4 (partial body lengths),
5.2.3.1 (signature subpacket lengths), 3.2 (MPI), 3.5 (time), 3.7.1.3 (S2K count).
"""


class Malformed(Exception):
    pass


# ---------------------------------------------------------------- new-format body lengths (4.2.2)
def new_len_enc(n):
    """shortest new-format encoding of a definite body length"""
    if n < 0 or n > 0xFFFFFFFF:
        raise ValueError(n)
    if n < 192:
        return bytes([n])
    if n < 8384:
        n -= 192
        return bytes([(n >> 8) + 192, n & 0xFF])
    return b'\xff' + n.to_bytes(4, 'big')


def new_len_dec(b, i=0):
    """-> (length, next index, is_partial)"""
    if i >= len(b):
        raise Malformed('eof in length')
    o = b[i]
    if o < 192:
        return o, i + 1, False
    if o < 224:
        if i + 1 >= len(b):
            raise Malformed('eof in 2-octet length')
        return ((o - 192) << 8) + b[i + 1] + 192, i + 2, False
    if o < 255:
        return 1 << (o & 0x1F), i + 1, True
    if i + 4 >= len(b):
        raise Malformed('eof in 5-octet length')
    return int.from_bytes(b[i + 1:i + 5], 'big'), i + 5, False


def new_hdr(tag, n):
    return bytes([0xC0 | tag]) + new_len_enc(n)


def old_hdr(tag, n, lt=None):
    """old-format header; lt = length type 0/1/2/3 (3 = indeterminate); default: narrowest that fits"""
    if tag > 15:
        raise ValueError('old format cannot carry tag %d' % tag)
    if lt is None:
        lt = 0 if n < 256 else 1 if n < 65536 else 2
    if lt == 3:
        return bytes([0x80 | (tag << 2) | 3])
    w = {0: 1, 1: 2, 2: 4}[lt]
    if n >= 1 << (8 * w):
        raise ValueError('length does not fit')
    return bytes([0x80 | (tag << 2) | lt]) + n.to_bytes(w, 'big')


def partial_body(tag, body, chunks, final='min'):
    """new-format packet with partial lengths: chunks = list of powers (1<<p each), then a final definite part"""
    out = bytearray([0xC0 | tag])
    i = 0
    for p in chunks:
        sz = 1 << p
        if i + sz > len(body):
            raise ValueError('chunk overruns body')
        out.append(224 + p)
        out += body[i:i + sz]
        i += sz
    rest = body[i:]
    if final == 'min':
        out += new_len_enc(len(rest))
    elif final == 5:
        out += b'\xff' + len(rest).to_bytes(4, 'big')
    elif final == 2:
        n = len(rest) - 192
        if not 0 <= n < 8192:
            raise ValueError
        out += bytes([(n >> 8) + 192, n & 0xFF])
    out += rest
    return bytes(out)


class Pkt(object):
    __slots__ = ('tag', 'body', 'fmt', 'hlen', 'partial', 'raw', 'lt', 'minimal')

    def __repr__(self):
        return '<Pkt tag=%d len=%d %s>' % (self.tag, len(self.body), 'new' if self.fmt else 'old')


def split(data, allow_indeterminate=True):
    """strict packet splitter -> [Pkt]; raises Malformed on any framing error"""
    data = bytes(data)
    out = []
    i = 0
    n = len(data)
    while i < n:
        start = i
        b0 = data[i]
        if not b0 & 0x80:
            raise Malformed('bit 7 clear at offset %d' % i)
        p = Pkt()
        p.minimal = True
        if b0 & 0x40:
            p.fmt = 1
            p.tag = b0 & 0x3F
            p.lt = None
            i += 1
            body = bytearray()
            p.partial = False
            first = True
            while True:
                l, j, part = new_len_dec(data, i)
                if part and first and l < 512:
                    raise Malformed('first partial chunk shorter than 512')
                if not part and new_len_enc(l) != data[i:j]:
                    p.minimal = False
                first = False
                i = j
                if i + l > n:
                    raise Malformed('body overruns input')
                body += data[i:i + l]
                i += l
                if part:
                    p.partial = True
                else:
                    break
            p.body = bytes(body)
        else:
            p.fmt = 0
            p.tag = (b0 >> 2) & 0xF
            p.lt = b0 & 3
            p.partial = False
            i += 1
            if p.lt == 3:
                if not allow_indeterminate:
                    raise Malformed('indeterminate length')
                p.body = data[i:]
                i = n
            else:
                w = {0: 1, 1: 2, 2: 4}[p.lt]
                if i + w > n:
                    raise Malformed('eof in old length')
                l = int.from_bytes(data[i:i + w], 'big')
                i += w
                if i + l > n:
                    raise Malformed('body overruns input')
                p.body = data[i:i + l]
                i += l
        if p.tag == 0:
            raise Malformed('tag 0')
        p.hlen = i - start - len(p.body) if not p.partial else None
        p.raw = data[start:i]
        out.append(p)
    return out


# ---------------------------------------------------------------- subpacket lengths (5.2.3.1)
def sp_len_enc(n):
    if n < 192:
        return bytes([n])
    if n < 16320:
        n -= 192
        return bytes([(n >> 8) + 192, n & 0xFF])
    return b'\xff' + n.to_bytes(4, 'big')


def sp_len_dec(b, i=0):
    if i >= len(b):
        raise Malformed('eof in subpacket length')
    o = b[i]
    if o < 192:
        return o, i + 1
    if o < 255:
        if i + 1 >= len(b):
            raise Malformed('eof in 2-octet subpacket length')
        return ((o - 192) << 8) + b[i + 1] + 192, i + 2
    if i + 4 >= len(b):
        raise Malformed('eof in 5-octet subpacket length')
    return int.from_bytes(b[i + 1:i + 5], 'big'), i + 5


def subpackets(area):
    """-> [(type, critical, body, raw)] ; the area must be filled exactly"""
    area = bytes(area)
    out = []
    i = 0
    while i < len(area):
        s = i
        l, i = sp_len_dec(area, i)
        if l == 0:
            raise Malformed('zero-length subpacket')
        if i + l > len(area):
            raise Malformed('subpacket overruns area')
        t = area[i]
        out.append((t & 0x7F, bool(t & 0x80), area[i + 1:i + l], area[s:i + l]))
        i += l
    return out


def subpacket(t, body, critical=False, lenform='min'):
    n = len(body) + 1
    if lenform == 'min':
        le = sp_len_enc(n)
    elif lenform == 2:
        if n < 192:
            raise ValueError('two-octet form cannot encode < 192')
        m = n - 192
        le = bytes([(m >> 8) + 192, m & 0xFF])
    elif lenform == 5:
        le = b'\xff' + n.to_bytes(4, 'big')
    else:
        raise ValueError(lenform)
    return le + bytes([t | (0x80 if critical else 0)]) + bytes(body)


# ---------------------------------------------------------------- MPI (3.2)
def mpi_enc(v):
    if v < 0:
        raise ValueError
    bl = v.bit_length()
    return bl.to_bytes(2, 'big') + v.to_bytes((bl + 7) // 8, 'big')


def mpi_dec(b, i=0, canonical=False):
    if i + 2 > len(b):
        raise Malformed('eof in MPI length')
    bits = int.from_bytes(b[i:i + 2], 'big')
    l = (bits + 7) // 8
    if i + 2 + l > len(b):
        raise Malformed('MPI overruns')
    v = int.from_bytes(b[i + 2:i + 2 + l], 'big')
    if canonical and v.bit_length() != bits:
        raise Malformed('non-canonical MPI')
    return v, i + 2 + l


def mpi_raw(b, i=0):
    """-> (octet string of the MPI value, next index)"""
    bits = int.from_bytes(b[i:i + 2], 'big')
    l = (bits + 7) // 8
    if i + 2 + l > len(b):
        raise Malformed('MPI overruns')
    return bytes(b[i + 2:i + 2 + l]), i + 2 + l


def mpi_of_bytes(raw):
    """MPI whose value octets are `raw` (leading zero bits stripped per 3.2)"""
    return mpi_enc(int.from_bytes(raw, 'big'))


# ---------------------------------------------------------------- time (3.5), S2K count (3.7.1.3)
def time_enc(t):
    return int(t).to_bytes(4, 'big')


def time_dec(b):
    return int.from_bytes(b[:4], 'big')


def s2k_count(c):
    return (16 + (c & 15)) << ((c >> 4) + 6)
