"""Oracle A -- an independent executable model of the parts of RFC 4880 / RFC 6637 the properties mention.
Imports: stdlib + cryptography primitives.  Never pgpy."""
from . import wire, sym, keys, sig, pk, armor, grammar  # noqa
