"""Oracle A: ASCII armor (RFC 4880 s.6) and the cleartext signature framework (s.7)."""
import binascii
import re

from .wire import Malformed


def crc24(data):
    crc = 0xB704CE
    for b in bytes(data):
        crc ^= b << 16
        for _ in range(8):
            crc <<= 1
            if crc & 0x1000000:
                crc ^= 0x1864CFB
    return crc & 0xFFFFFF


_B64 = re.compile(r'^[A-Za-z0-9+/]*={0,2}$')


def _b64dec(s):
    if not _B64.match(s) or len(s) % 4:
        raise Malformed('bad radix-64 text')
    try:
        return binascii.a2b_base64(s.encode('ascii'), strict_mode=True) if s else b''
    except (binascii.Error, ValueError) as e:
        raise Malformed('bad radix-64: %s' % e)


def _b64enc(b):
    return binascii.b2a_base64(bytes(b), newline=False).decode('ascii')


def armor(kind, data, headers=(), width=64, eol='\n'):
    lines = ['-----BEGIN PGP %s-----' % kind]
    for k, v in headers:
        lines.append('%s: %s' % (k, v))
    lines.append('')
    b = _b64enc(data)
    lines += [b[i:i + width] for i in range(0, len(b), width)]
    lines.append('=' + _b64enc(crc24(data).to_bytes(3, 'big')))
    lines.append('-----END PGP %s-----' % kind)
    return eol.join(lines) + eol


def dearmor(text):
    """first armor block in text -> dict(kind, headers[list of (k,v)], data, crc, crc_ok, lines, cleartext?, hashes?)
    strict: BEGIN/END labels must match, body lines only radix-64, CRC line optional."""
    if isinstance(text, (bytes, bytearray)):
        text = bytes(text).decode('latin-1')
    lines = text.replace('\r\n', '\n').split('\n')
    i = 0
    out = {}
    while i < len(lines) and not re.match(r'^-----BEGIN PGP [A-Z0-9 ,]+-----\s*$', lines[i]):
        i += 1
    if i == len(lines):
        raise Malformed('no armor header line')
    kind = re.match(r'^-----BEGIN PGP ([A-Z0-9 ,]+)-----', lines[i]).group(1)
    i += 1
    if kind == 'SIGNED MESSAGE':
        hashes = []
        while i < len(lines) and lines[i] != '':
            m = re.match(r'^Hash: (.*)$', lines[i])
            if not m:
                raise Malformed('only Hash headers allowed in cleartext header')
            hashes += [h.strip() for h in m.group(1).split(',')]
            i += 1
        i += 1
        ct = []
        while i < len(lines) and not lines[i].startswith('-----BEGIN PGP SIGNATURE-----'):
            ct.append(lines[i])
            i += 1
        if i == len(lines):
            raise Malformed('no signature block after cleartext')
        inner = dearmor('\n'.join(lines[i:]))
        inner['hashes'] = hashes
        inner['cleartext_lines'] = ct
        inner['kind'] = 'SIGNED MESSAGE'
        return inner
    headers = []
    while i < len(lines) and lines[i].strip() != '':
        if ': ' not in lines[i]:
            break
        k, v = lines[i].split(': ', 1)
        headers.append((k, v))
        i += 1
    if i < len(lines) and lines[i].strip() == '':
        i += 1
    body = []
    crc = None
    while i < len(lines) and not lines[i].startswith('-----END PGP '):
        l = lines[i].rstrip(' \t')
        if l.startswith('=') and len(l) == 5:
            crc = int.from_bytes(_b64dec(l[1:]), 'big')
        elif l == '':
            pass
        else:
            if crc is not None:
                raise Malformed('data after CRC line')
            body.append(l)
        i += 1
    if i == len(lines):
        raise Malformed('no armor tail')
    m = re.match(r'^-----END PGP ([A-Z0-9 ,]+)-----\s*$', lines[i])
    if not m or m.group(1) != kind:
        raise Malformed('armor tail does not match header')
    data = _b64dec(''.join(body))
    out.update(kind=kind, headers=headers, data=data, crc=crc, crc_ok=(crc is None or crc == crc24(data)),
               maxline=max([len(b) for b in body] or [0]), body_lines=body)
    return out


# ---------------------------------------------------------------- cleartext signatures (s.7)
def dash_escape(lines):
    """7.1: every line starting with '-' MUST be prefixed with '- '; 'From ' lines MAY be."""
    return [('- ' + l) if l.startswith('-') else l for l in lines]


def dash_unescape(lines):
    return [l[2:] if l.startswith('- ') else l for l in lines]


def cleartext_canonical(text):
    """octets signed for a cleartext message (7.1 + 5.2.4): lines split at CRLF or LF, trailing SP/TAB removed,
    joined with CRLF; the line ending before the signature block is not part of the text."""
    if isinstance(text, str):
        text = text.encode('utf-8')
    lines = text.replace(b'\r\n', b'\n').split(b'\n')
    return b'\r\n'.join(l.rstrip(b' \t') for l in lines)


def cleartext_canonical_keep_blanks(text):
    """differential quirk: same, without removing trailing blanks"""
    if isinstance(text, str):
        text = text.encode('utf-8')
    return b'\r\n'.join(text.replace(b'\r\n', b'\n').split(b'\n'))
