"""Oracle A: packet-composition grammar of RFC 4880 s.11.3 (OpenPGP messages) and s.11.1/11.2 (transferable keys)."""
from .wire import Malformed, split
from . import sym


class NotGrammatical(Exception):
    pass


def literal_fields(body):
    body = bytes(body)
    if len(body) < 6:
        raise Malformed('short literal packet')
    fmt = body[0:1]
    fl = body[1]
    if 2 + fl + 4 > len(body):
        raise Malformed('literal filename overruns')
    return {'format': fmt, 'filename': body[2:2 + fl], 'mtime': int.from_bytes(body[2 + fl:6 + fl], 'big'),
            'data': body[6 + fl:]}


def onepass_fields(body):
    body = bytes(body)
    if len(body) != 13 or body[0] != 3:
        raise Malformed('one-pass signature packet')
    return {'type': body[1], 'halg': body[2], 'pubalg': body[3], 'keyid': body[4:12], 'last': body[12]}


def parse_message(pkts, depth=0):
    """pkts: list of wire.Pkt.  Returns a tree dict; raises NotGrammatical."""
    pkts = [p for p in pkts if p.tag != 10]
    node, rest = _message(pkts, depth)
    if rest:
        raise NotGrammatical('trailing packets after message: tags %r' % [p.tag for p in rest])
    return node


def _message(pkts, depth):
    if depth > 8:
        raise NotGrammatical('nesting too deep')
    if not pkts:
        raise NotGrammatical('empty message')
    p = pkts[0]
    if p.tag == 11:
        return {'kind': 'literal', 'pkt': p, 'lit': literal_fields(p.body)}, pkts[1:]
    if p.tag == 8:
        if not p.body:
            raise Malformed('empty compressed packet')
        inner = split(sym.decompress(p.body[0], p.body[1:]))
        return {'kind': 'compressed', 'alg': p.body[0], 'pkt': p, 'inner': parse_message(inner, depth + 1)}, pkts[1:]
    if p.tag in (1, 3, 9, 18):
        esk = []
        i = 0
        while i < len(pkts) and pkts[i].tag in (1, 3):
            esk.append(pkts[i])
            i += 1
        if i >= len(pkts) or pkts[i].tag not in (9, 18):
            raise NotGrammatical('session-key packets not followed by encrypted data')
        return {'kind': 'encrypted', 'esk': esk, 'data': pkts[i]}, pkts[i + 1:]
    if p.tag == 2:
        inner, rest = _message(pkts[1:], depth + 1)
        return {'kind': 'signed', 'sig': p, 'inner': inner}, rest
    if p.tag == 4:
        ops = onepass_fields(p.body)
        inner, rest = _message(pkts[1:], depth + 1)
        if not rest or rest[0].tag != 2:
            raise NotGrammatical('one-pass signature without corresponding signature packet')
        return {'kind': 'onepass', 'ops': ops, 'opspkt': p, 'inner': inner, 'sig': rest[0]}, rest[1:]
    raise NotGrammatical('packet tag %d cannot start a message' % p.tag)


def flatten_signed(node):
    """-> (list of (ops fields|None, sig Pkt) outermost first, innermost non-signed node)"""
    layers = []
    while node['kind'] in ('onepass', 'signed'):
        layers.append((node.get('ops'), node['sig']))
        node = node['inner']
    return layers, node


def parse_key(pkts):
    """transferable key (11.1 / 11.2), trust packets ignored.
    -> dict(primary=Pkt, direct=[sig], uids=[(Pkt,[sig])], subkeys=[(Pkt,[sig])], secret=bool)"""
    pkts = [p for p in pkts if p.tag != 12]
    if not pkts or pkts[0].tag not in (5, 6):
        raise NotGrammatical('key does not start with a primary key packet')
    secret = pkts[0].tag == 5
    key = {'primary': pkts[0], 'direct': [], 'uids': [], 'subkeys': [], 'secret': secret}
    i = 1
    while i < len(pkts) and pkts[i].tag == 2:
        key['direct'].append(pkts[i])
        i += 1
    while i < len(pkts) and pkts[i].tag in (13, 17):
        u = pkts[i]
        i += 1
        sigs = []
        while i < len(pkts) and pkts[i].tag == 2:
            sigs.append(pkts[i])
            i += 1
        key['uids'].append((u, sigs))
    while i < len(pkts) and pkts[i].tag in (7, 14):
        if (pkts[i].tag == 7) != secret:
            raise NotGrammatical('subkey half differs from primary half')
        k = pkts[i]
        i += 1
        sigs = []
        while i < len(pkts) and pkts[i].tag == 2:
            sigs.append(pkts[i])
            i += 1
        key['subkeys'].append((k, sigs))
    return key, pkts[i:]


def parse_keys(pkts):
    out = []
    rest = [p for p in pkts if p.tag != 12]
    while rest:
        k, rest = parse_key(rest)
        out.append(k)
    return out
