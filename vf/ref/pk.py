"""Oracle A: public-key encrypted session keys -- RFC 4880 5.1 (RSA, PKCS#1 v1.5) and RFC 6637 (ECDH:
one-step KDF with the parameter block, AES key wrap, PKCS#5 padding), plus the 13.x session-key checksum."""
import hashlib
import os

from cryptography.hazmat.primitives.asymmetric import padding, ec, x25519
from cryptography.hazmat.primitives import serialization

from .wire import Malformed, mpi_dec, mpi_enc, mpi_raw, mpi_of_bytes
from .sym import HASHNAME, keylen, aes_wrap, aes_unwrap, UnwrapError, CIPHERS
from . import keys as K


class PKError(Exception):
    pass


def session_block(alg, key):
    return bytes([alg]) + bytes(key) + (sum(key) & 0xFFFF).to_bytes(2, 'big')


def parse_session_block(m):
    """-> (cipher, key); checks algorithm, key length and the 16-bit checksum"""
    if len(m) < 4:
        raise PKError('short session block')
    alg = m[0]
    key = m[1:-2]
    if sum(key) & 0xFFFF != int.from_bytes(m[-2:], 'big'):
        raise PKError('checksum')
    if alg not in CIPHERS:
        raise PKError('cipher %d' % alg)
    if len(key) != keylen(alg):
        raise PKError('session key length %d for cipher %d' % (len(key), alg))
    return alg, key


def kdf_param(pub, fpr20):
    return (bytes([len(pub['oid'])]) + bytes(pub['oid']) + bytes([18, 3, 1, pub['kdf_hash'], pub['kdf_sym']]) +
            b'Anonymous Sender    ' + bytes(fpr20))


def kdf(pub, Z, fpr20):
    """RFC 6637 s.7: KDF = Hash(00 00 00 01 || Z || Param), leftmost keylen(KEK alg) octets"""
    return hashlib.new(HASHNAME[pub['kdf_hash']], b'\x00\x00\x00\x01' + Z + kdf_param(pub, fpr20)).digest()[:keylen(pub['kdf_sym'])]


def pkesk_fields(body):
    body = bytes(body)
    if body[0] != 3:
        raise Malformed('PKESK version')
    f = {'keyid': body[1:9], 'alg': body[9]}
    i = 10
    if f['alg'] in (1, 2):
        f['c'], i = mpi_dec(body, i)
        if i != len(body):
            raise Malformed('trailing octets in PKESK')
    elif f['alg'] == 18:
        f['point'], i = mpi_raw(body, i)
        cl = body[i]
        f['wrapped'] = body[i + 1:i + 1 + cl]
        if i + 1 + cl != len(body) or len(f['wrapped']) != cl:
            raise Malformed('PKESK ECDH length')
    elif f['alg'] == 16:
        f['gk'], i = mpi_dec(body, i)
        f['myk'], i = mpi_dec(body, i)
    else:
        raise Malformed('PKESK algorithm %d' % f['alg'])
    return f


def pkesk_decrypt(body, key):
    """-> (cipher, session key). key = full key dict with secret fields."""
    f = pkesk_fields(body)
    pub = key
    if f['alg'] in (1, 2):
        nlen = (key['n'].bit_length() + 7) // 8
        try:
            m = K.priv_obj(key).decrypt(f['c'].to_bytes(nlen, 'big'), padding.PKCS1v15())
        except ValueError as e:
            raise PKError('rsa: %s' % e)
    elif f['alg'] == 18:
        crv = K.CURVE_OF[bytes(key['oid'])]
        try:
            if crv == 'cv25519':
                if f['point'][0] != 0x40:
                    raise PKError('ephemeral point prefix')
                Z = K.priv_obj(key).exchange(x25519.X25519PublicKey.from_public_bytes(f['point'][1:]))
            else:
                eph = ec.EllipticCurvePublicKey.from_encoded_point(K.EC_CLS[crv](), f['point'])
                Z = K.priv_obj(key).exchange(ec.ECDH(), eph)
        except ValueError as e:
            raise PKError('ecdh: %s' % e)
        kek = kdf(pub, Z, K.fpr_of(key))
        try:
            m = aes_unwrap(kek, f['wrapped'])
        except UnwrapError as e:
            raise PKError('unwrap: %s' % e)
        padn = m[-1]
        if not 1 <= padn <= 8 or m[-padn:] != bytes([padn]) * padn:
            raise PKError('pkcs5 padding')
        m = m[:-padn]
    else:
        raise PKError('algorithm %d' % f['alg'])
    return parse_session_block(m)


def pkesk_build(key, cipher, session, keyid=None):
    """tag-1 body to `key` (public fields suffice)."""
    m = session_block(cipher, session)
    kid = K.keyid_of(key) if keyid is None else keyid
    if key['alg'] in (1, 2):
        c = K.pub_obj(key).encrypt(m, padding.PKCS1v15())
        return b'\x03' + kid + bytes([key['alg']]) + mpi_enc(int.from_bytes(c, 'big'))
    if key['alg'] == 18:
        crv = K.CURVE_OF[bytes(key['oid'])]
        if crv == 'cv25519':
            v = x25519.X25519PrivateKey.generate()
            V = b'\x40' + v.public_key().public_bytes(serialization.Encoding.Raw, serialization.PublicFormat.Raw)
            Z = v.exchange(K.pub_obj(key))
        else:
            v = ec.generate_private_key(K.EC_CLS[crv]())
            V = v.public_key().public_bytes(serialization.Encoding.X962, serialization.PublicFormat.UncompressedPoint)
            Z = v.exchange(ec.ECDH(), K.pub_obj(key))
        kek = kdf(key, Z, K.fpr_of(key))
        padn = 8 - len(m) % 8
        wrapped = aes_wrap(kek, m + bytes([padn]) * padn)
        return b'\x03' + kid + b'\x12' + mpi_of_bytes(V) + bytes([len(wrapped)]) + wrapped
    raise ValueError('cannot encrypt to alg %d' % key['alg'])
