"""Oracle A: key packets (5.5), fingerprints (12.2), secret-key protection (5.5.3, 3.7), RFC 6637 key fields.

Key material is a plain dict of ints/bytes:
  common: alg, created
  RSA(1,2,3): n e | d p q u        DSA(17): p q g y | x        ElGamal(16): p g y | x
  ECDSA(19)/EdDSA(22)/ECDH(18): oid (bytes), point (bytes, with 0x04/0x40 prefix) | s ; ECDH also kdf_hash, kdf_sym
"""
import hashlib

from cryptography.hazmat.primitives.asymmetric import rsa, dsa, ec, ed25519, x25519

from .wire import Malformed, mpi_enc, mpi_dec, mpi_raw, mpi_of_bytes
from . import sym

OID = {
    'p256': bytes.fromhex('2a8648ce3d030107'),
    'p384': bytes.fromhex('2b81040022'),
    'p521': bytes.fromhex('2b81040023'),
    'k256': bytes.fromhex('2b8104000a'),
    'ed25519': bytes.fromhex('2b06010401da470f01'),
    'cv25519': bytes.fromhex('2b060104019755010501'),
    'bp256': bytes.fromhex('2b2403030208010107'),
    'bp384': bytes.fromhex('2b240303020801010b'),
    'bp512': bytes.fromhex('2b240303020801010d'),
}
CURVE_OF = {v: k for k, v in OID.items()}
EC_CLS = {'p256': ec.SECP256R1, 'p384': ec.SECP384R1, 'p521': ec.SECP521R1, 'k256': ec.SECP256K1}

PUBF = {1: 'ne', 2: 'ne', 3: 'ne', 17: 'pqgy', 16: 'pgy'}
SECF = {1: 'dpqu', 2: 'dpqu', 3: 'dpqu', 17: 'x', 16: 'x', 18: 's', 19: 's', 22: 's'}


def pub_material(k):
    a = k['alg']
    if a in PUBF:
        return b''.join(mpi_enc(k[f]) for f in PUBF[a])
    if a in (18, 19, 22):
        out = bytes([len(k['oid'])]) + k['oid'] + mpi_of_bytes(k['point'])
        if a == 18:
            out += bytes([3, 1, k['kdf_hash'], k['kdf_sym']])
        return out
    raise ValueError('alg %r' % a)


def pub_body(k):
    return b'\x04' + int(k['created']).to_bytes(4, 'big') + bytes([k['alg']]) + pub_material(k)


def sec_plain(k):
    return b''.join(mpi_enc(k[f]) for f in SECF[k['alg']])


def sec_body(k, protect=None):
    """secret-key packet body. protect=None -> usage 0 with 16-bit checksum.
    protect = dict(usage=254|255, cipher, s2k=(spec, halg, salt, coded_count), iv, passphrase)
           or dict(gnu=1|2, serial=b'')"""
    pub = pub_body(k)
    if protect is None:
        pl = sec_plain(k)
        return pub + b'\x00' + pl + (sum(pl) & 0xFFFF).to_bytes(2, 'big')
    if 'gnu' in protect:
        out = pub + bytes([protect.get('usage', 254), 0, 101]) + bytes([protect.get('halg', 0)]) + b'GNU' + bytes([protect['gnu']])
        # gpg writes: usage, cipher 0, specifier 101, hash id 0, 'GNU', extension number
        if protect['gnu'] == 2:
            ser = protect.get('serial', b'')
            out += bytes([len(ser)]) + ser
        return out
    pl = sec_plain(k)
    usage = protect['usage']
    spec, halg, salt, cnt = protect['s2k']
    cipher = protect['cipher']
    if usage == 254:
        pl += hashlib.sha1(pl).digest()
    else:
        pl += (sum(pl) & 0xFFFF).to_bytes(2, 'big')
    key = sym.s2k(spec, halg, salt, cnt, protect['passphrase'], sym.keylen(cipher))
    ct = sym.cfb_encrypt(cipher, key, protect['iv'], pl)
    hdr = bytes([usage, cipher, spec, halg]) + (salt if spec in (1, 3) else b'') + (bytes([cnt]) if spec == 3 else b'')
    return pub + hdr + protect['iv'] + ct


def parse_pub(body):
    body = bytes(body)
    if len(body) < 6:
        raise Malformed('short key packet')
    if body[0] != 4:
        raise Malformed('key version %d' % body[0])
    k = {'created': int.from_bytes(body[1:5], 'big'), 'alg': body[5]}
    a = body[5]
    i = 6
    if a in PUBF:
        for f in PUBF[a]:
            k[f], i = mpi_dec(body, i)
    elif a in (18, 19, 22):
        ol = body[i]
        if ol in (0, 0xFF):
            raise Malformed('reserved oid length')
        k['oid'] = body[i + 1:i + 1 + ol]
        i += 1 + ol
        k['curve'] = CURVE_OF.get(k['oid'])
        k['point'], i = mpi_raw(body, i)
        if a == 18:
            if body[i:i + 2] != b'\x03\x01':
                raise Malformed('kdf params')
            k['kdf_hash'], k['kdf_sym'] = body[i + 2], body[i + 3]
            i += 4
    else:
        raise Malformed('unknown key algorithm %d' % a)
    if i > len(body):
        raise Malformed('key material overruns')
    k['publen'] = i
    k['pubbody'] = body[:i]
    return k


def canonical_pubbody(body):
    """public-key body re-encoded from its parsed fields (MPI bit counts made canonical): two bodies with equal canonical
    form carry the same key material"""
    return pub_body(parse_pub(body))


def fingerprint(pubbody):
    """20 raw octets; pubbody = public-key packet body (version..material)"""
    return hashlib.sha1(b'\x99' + len(pubbody).to_bytes(2, 'big') + bytes(pubbody)).digest()


def fpr_of(k):
    return fingerprint(pub_body(k))


def keyid_of(k):
    return fpr_of(k)[-8:]


class BadPassphrase(Exception):
    pass


def parse_sec(body, passphrase=None):
    """-> (pub dict, sec dict | None, info dict).  sec is None if protected and no passphrase given / gnu dummy."""
    body = bytes(body)
    k = parse_pub(body)
    i = k['publen']
    if i >= len(body):
        raise Malformed('no secret part')
    usage = body[i]
    i += 1
    info = {'usage': usage}
    names = SECF[k['alg']]
    if usage == 0:
        start = i
        sec = {}
        for f in names:
            sec[f], i = mpi_dec(body, i)
        if i + 2 != len(body):
            raise Malformed('secret part length')
        if sum(body[start:i]) & 0xFFFF != int.from_bytes(body[i:i + 2], 'big'):
            raise Malformed('secret checksum')
        return k, sec, info
    if usage in (254, 255):
        cipher = body[i]
        spec = body[i + 1]
        i += 2
    else:
        cipher, spec = usage, 0  # legacy: usage octet is the cipher, simple S2K with MD5
        info.update(cipher=cipher, legacy=True)
        raise Malformed('legacy usage octet unsupported by reference')
    if spec == 101:
        info['gnu'] = body[i + 4] if body[i + 1:i + 4] == b'GNU' else None
        return k, None, info
    halg = body[i]
    i += 1
    salt = b''
    cnt = None
    if spec in (1, 3):
        salt = body[i:i + 8]
        i += 8
    if spec == 3:
        cnt = body[i]
        i += 1
    if spec not in (0, 1, 3):
        raise Malformed('s2k specifier %d' % spec)
    bs = sym.blocksize(cipher)
    iv = body[i:i + bs]
    i += bs
    ct = body[i:]
    info.update(cipher=cipher, s2k=(spec, halg, salt, cnt), iv=iv, ct=ct)
    if passphrase is None:
        return k, None, info
    key = sym.s2k(spec, halg, salt, cnt, passphrase, sym.keylen(cipher))
    pt = sym.cfb_decrypt(cipher, key, iv, ct)
    if usage == 254:
        if len(pt) < 20 or hashlib.sha1(pt[:-20]).digest() != pt[-20:]:
            raise BadPassphrase('sha1')
        pt = pt[:-20]
    else:
        if len(pt) < 2 or sum(pt[:-2]) & 0xFFFF != int.from_bytes(pt[-2:], 'big'):
            raise BadPassphrase('checksum')
        pt = pt[:-2]
    sec = {}
    j = 0
    for f in names:
        sec[f], j = mpi_dec(pt, j)
    if j != len(pt):
        raise Malformed('trailing octets in secret part')
    return k, sec, info


# ---------------------------------------------------------------- cryptography objects
def pub_obj(k):
    a = k['alg']
    if a in (1, 2, 3):
        return rsa.RSAPublicNumbers(k['e'], k['n']).public_key()
    if a == 17:
        return dsa.DSAPublicNumbers(k['y'], dsa.DSAParameterNumbers(k['p'], k['q'], k['g'])).public_key()
    crv = CURVE_OF.get(bytes(k['oid']))
    if a == 22:
        if k['point'][0] != 0x40:
            raise Malformed('EdDSA point prefix')
        return ed25519.Ed25519PublicKey.from_public_bytes(k['point'][1:])
    if a == 18 and crv == 'cv25519':
        if k['point'][0] != 0x40:
            raise Malformed('cv25519 point prefix')
        return x25519.X25519PublicKey.from_public_bytes(k['point'][1:])
    if a in (18, 19):
        return ec.EllipticCurvePublicKey.from_encoded_point(EC_CLS[crv](), k['point'])
    raise ValueError('alg %r' % a)


def priv_obj(k):
    a = k['alg']
    if a in (1, 2, 3):
        p, q, d = k['p'], k['q'], k['d']
        return rsa.RSAPrivateNumbers(p, q, d, rsa.rsa_crt_dmp1(d, p), rsa.rsa_crt_dmq1(d, q), rsa.rsa_crt_iqmp(p, q),
                                     rsa.RSAPublicNumbers(k['e'], k['n'])).private_key()
    if a == 17:
        return dsa.DSAPrivateNumbers(k['x'], dsa.DSAPublicNumbers(k['y'], dsa.DSAParameterNumbers(k['p'], k['q'], k['g']))).private_key()
    crv = CURVE_OF.get(bytes(k['oid']))
    if a == 22:
        return ed25519.Ed25519PrivateKey.from_private_bytes(k['s'].to_bytes(32, 'big'))
    if a == 18 and crv == 'cv25519':
        return x25519.X25519PrivateKey.from_private_bytes(k['s'].to_bytes(32, 'big')[::-1])
    if a in (18, 19):
        return ec.derive_private_key(k['s'], EC_CLS[crv]())
    raise ValueError('alg %r' % a)


def secret_octet_strings(k, minlen=8):
    """big-endian (and for 25519 little-endian) octet strings of every secret integer, for leak scans"""
    out = []
    for f in SECF[k['alg']]:
        v = k.get(f)
        if v is None:
            continue
        b = v.to_bytes((v.bit_length() + 7) // 8, 'big')
        if len(b) >= minlen:
            out.append((f, b))
            if k['alg'] in (18, 22):
                out.append((f + '_le', b[::-1]))
    return out
