"""Oracle A: symmetric side of RFC 4880 -- S2K (3.7.1), OpenPGP CFB (13.9) built on raw ECB, SEIPD+MDC (5.13, 5.14),
legacy SED with resync (5.7), SKESK (5.3); RFC 3394 AES key wrap written out; compression (5.6).

cryptography is used only for the raw block-cipher ECB primitive and hashlib for digests.
"""
import bz2
import hashlib
import zlib

from cryptography.hazmat.primitives.ciphers import Cipher, algorithms, modes

try:
    from cryptography.hazmat.decrepit.ciphers import algorithms as _dalg
except Exception:  # pragma: no cover
    _dalg = None

from .wire import Malformed, s2k_count

HASHNAME = {1: 'md5', 2: 'sha1', 3: 'ripemd160', 8: 'sha256', 9: 'sha384', 10: 'sha512', 11: 'sha224'}


def _cls(name):
    c = getattr(_dalg, name, None) if _dalg is not None else None
    return c or getattr(algorithms, name)


# id -> (class name, key octets, block octets)
CIPHERS = {1: ('IDEA', 16, 8), 2: ('TripleDES', 24, 8), 3: ('CAST5', 16, 8), 4: ('Blowfish', 16, 8),
           7: ('AES', 16, 16), 8: ('AES', 24, 16), 9: ('AES', 32, 16),
           11: ('Camellia', 16, 16), 12: ('Camellia', 24, 16), 13: ('Camellia', 32, 16)}


def keylen(a):
    return CIPHERS[a][1]


def blocksize(a):
    return CIPHERS[a][2]


def _ecb(a, key):
    name, kl, _ = CIPHERS[a]
    if len(key) != kl:
        raise ValueError('key length %d for cipher %d' % (len(key), a))
    return Cipher(_cls(name)(bytes(key)), modes.ECB()).encryptor()


def cfb_encrypt(a, key, iv, pt):
    """full-block CFB, written out over ECB"""
    bs = blocksize(a)
    e = _ecb(a, key)
    fr = bytes(iv)
    out = bytearray()
    for i in range(0, len(pt), bs):
        ks = e.update(fr)
        blk = bytes(x ^ y for x, y in zip(pt[i:i + bs], ks))
        out += blk
        fr = blk
    return bytes(out)


def cfb_decrypt(a, key, iv, ct):
    bs = blocksize(a)
    e = _ecb(a, key)
    fr = bytes(iv)
    out = bytearray()
    for i in range(0, len(ct), bs):
        ks = e.update(fr)
        blk = bytes(ct[i:i + bs])
        out += bytes(x ^ y for x, y in zip(blk, ks))
        fr = blk
    return bytes(out)


# ---------------------------------------------------------------- S2K (3.7.1), streaming
def s2k(spec, halg, salt, coded_count, passphrase, nkey):
    """spec 0 simple, 1 salted, 3 iterated+salted; returns nkey octets"""
    if isinstance(passphrase, str):
        passphrase = passphrase.encode('utf-8')
    name = HASHNAME[halg]
    hl = hashlib.new(name).digest_size
    nctx = -(-nkey // hl)
    ctxs = [hashlib.new(name, b'\x00' * i) for i in range(nctx)]
    unit = (bytes(salt) if spec in (1, 3) else b'') + bytes(passphrase)
    total = len(unit)
    if spec == 3:
        total = max(s2k_count(coded_count), len(unit))
    done = 0
    if len(unit) == 0:
        total = 0
    while done < total:
        chunk = unit if total - done >= len(unit) else unit[:total - done]
        for c in ctxs:
            c.update(chunk)
        done += len(chunk)
    return b''.join(c.digest() for c in ctxs)[:nkey]


def s2k_parse(b, i):
    spec = b[i]
    halg = b[i + 1]
    i += 2
    salt = b''
    cnt = None
    if spec in (1, 3):
        salt = bytes(b[i:i + 8])
        if len(salt) != 8:
            raise Malformed('short salt')
        i += 8
    if spec == 3:
        cnt = b[i]
        i += 1
    if spec not in (0, 1, 3):
        raise Malformed('s2k specifier %d' % spec)
    return (spec, halg, salt, cnt), i


def s2k_bytes(spec, halg, salt=b'', cnt=None):
    return bytes([spec, halg]) + (bytes(salt) if spec in (1, 3) else b'') + (bytes([cnt]) if spec == 3 else b'')


# ---------------------------------------------------------------- SEIPD v1 (5.13) / MDC (5.14)
class IntegrityError(Exception):
    pass


def seipd_encrypt(a, key, plaintext, prefix):
    bs = blocksize(a)
    if len(prefix) != bs:
        raise ValueError
    pt = bytes(prefix) + bytes(prefix[-2:]) + bytes(plaintext) + b'\xd3\x14'
    pt += hashlib.sha1(pt).digest()
    return b'\x01' + cfb_encrypt(a, key, b'\x00' * bs, pt)


def seipd_decrypt(a, key, body):
    """-> (plaintext packets, prefix).  Raises IntegrityError on quick-check or MDC failure."""
    if len(body) < 1 or body[0] != 1:
        raise Malformed('SEIPD version')
    bs = blocksize(a)
    pt = cfb_decrypt(a, key, b'\x00' * bs, bytes(body[1:]))
    if len(pt) < bs + 2 + 22:
        raise IntegrityError('too short')
    if pt[bs - 2:bs] != pt[bs:bs + 2]:
        raise IntegrityError('quick check')
    if pt[-22:-20] != b'\xd3\x14':
        raise IntegrityError('no MDC packet at the end')
    if hashlib.sha1(pt[:-20]).digest() != pt[-20:]:
        raise IntegrityError('MDC mismatch')
    return pt[bs + 2:-22], pt[:bs]


def sed_encrypt(a, key, plaintext, prefix):
    """legacy tag-9 body with CFB resync after the bs+2 prefix (5.7 / 13.9)"""
    bs = blocksize(a)
    first = cfb_encrypt(a, key, b'\x00' * bs, bytes(prefix) + bytes(prefix[-2:]))
    first = first[:bs + 2]
    rest = cfb_encrypt(a, key, first[2:bs + 2], bytes(plaintext))
    return first + rest


def sed_decrypt(a, key, body):
    bs = blocksize(a)
    pre = cfb_decrypt(a, key, b'\x00' * bs, bytes(body[:bs + 2]))
    if pre[bs - 2:bs] != pre[bs:bs + 2]:
        raise IntegrityError('quick check')
    return cfb_decrypt(a, key, bytes(body[2:bs + 2]), bytes(body[bs + 2:]))


# ---------------------------------------------------------------- SKESK v4 (5.3)
def skesk_build(cipher, s2kspec, passphrase, session=None, session_alg=None):
    """body of a tag-3 packet. session None -> the S2K output is the session key."""
    spec, halg, salt, cnt = s2kspec
    body = bytes([4, cipher]) + s2k_bytes(spec, halg, salt, cnt)
    if session is not None:
        k = s2k(spec, halg, salt, cnt, passphrase, keylen(cipher))
        body += cfb_encrypt(cipher, k, b'\x00' * blocksize(cipher), bytes([session_alg]) + bytes(session))
    return body


def skesk_session(body, passphrase):
    """-> (cipher id, session key).  No integrity check exists at this layer (5.3)."""
    if body[0] != 4:
        raise Malformed('SKESK version')
    cipher = body[1]
    (spec, halg, salt, cnt), i = s2k_parse(body, 2)
    k = s2k(spec, halg, salt, cnt, passphrase, keylen(cipher))
    esk = bytes(body[i:])
    if not esk:
        return cipher, k
    m = cfb_decrypt(cipher, k, b'\x00' * blocksize(cipher), esk)
    return m[0], m[1:]


def skesk_fields(body):
    cipher = body[1]
    (spec, halg, salt, cnt), i = s2k_parse(body, 2)
    return {'cipher': cipher, 'spec': spec, 'halg': halg, 'salt': salt, 'count': cnt, 'esk': bytes(body[i:])}


# ---------------------------------------------------------------- RFC 3394 AES key wrap, written out
def _aes_ecb(kek, enc=True):
    c = Cipher(algorithms.AES(bytes(kek)), modes.ECB())
    return c.encryptor() if enc else c.decryptor()


def aes_wrap(kek, p):
    if len(p) % 8 or len(p) < 16:
        raise ValueError('wrap input')
    n = len(p) // 8
    A = b'\xa6' * 8
    R = [p[8 * i:8 * i + 8] for i in range(n)]
    e = _aes_ecb(kek)
    for j in range(6):
        for i in range(n):
            B = e.update(A + R[i])
            t = n * j + i + 1
            A = bytes(x ^ y for x, y in zip(B[:8], t.to_bytes(8, 'big')))
            R[i] = B[8:]
    return A + b''.join(R)


class UnwrapError(Exception):
    pass


def aes_unwrap(kek, c):
    if len(c) % 8 or len(c) < 24:
        raise UnwrapError('length')
    n = len(c) // 8 - 1
    A = c[:8]
    R = [c[8 * (i + 1):8 * (i + 2)] for i in range(n)]
    d = _aes_ecb(kek, False)
    for j in range(5, -1, -1):
        for i in range(n, 0, -1):
            t = n * j + i
            B = d.update(bytes(x ^ y for x, y in zip(A, t.to_bytes(8, 'big'))) + R[i - 1])
            A = B[:8]
            R[i - 1] = B[8:]
    if A != b'\xa6' * 8:
        raise UnwrapError('integrity')
    return b''.join(R)


# ---------------------------------------------------------------- compression (5.6)
def compress(alg, data, level=6):
    if alg == 0:
        return bytes(data)
    if alg == 1:
        c = zlib.compressobj(level, zlib.DEFLATED, -15)
        return c.compress(bytes(data)) + c.flush()
    if alg == 2:
        return zlib.compress(bytes(data), level)
    if alg == 3:
        return bz2.compress(bytes(data), max(1, min(9, level)))
    raise ValueError(alg)


def decompress(alg, data):
    try:
        if alg == 0:
            return bytes(data)
        if alg == 1:
            return zlib.decompress(bytes(data), -15)
        if alg == 2:
            return zlib.decompress(bytes(data))
        if alg == 3:
            return bz2.decompress(bytes(data))
    except Exception as e:
        raise Malformed('decompress: %s' % e)
    raise Malformed('compression algorithm %d' % alg)
