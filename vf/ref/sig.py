"""Oracle A: v4 signatures -- packet parse (5.2.3), hash input and trailer (5.2.4), left 16 bits,
per-algorithm signature encoding (5.2.2, RFC 6637 s.5, EdDSA draft), independent sign and verify.
"""
import hashlib

from cryptography.exceptions import InvalidSignature
from cryptography.hazmat.primitives import hashes
from cryptography.hazmat.primitives.asymmetric import padding, utils, ec

from .wire import Malformed, mpi_dec, mpi_enc, subpackets, subpacket
from .sym import HASHNAME
from . import keys as K

CHASH = {1: 'MD5', 2: 'SHA1', 3: 'RIPEMD160', 8: 'SHA256', 9: 'SHA384', 10: 'SHA512', 11: 'SHA224'}

CERT_TYPES = (0x10, 0x11, 0x12, 0x13, 0x30, 0x16)
KEYBIND_TYPES = (0x18, 0x19, 0x28)
DIRECT_TYPES = (0x1F, 0x20)
DOC_TYPES = (0x00, 0x01)
NOSUBJ_TYPES = (0x02, 0x40)
NMPI = {1: 1, 2: 1, 3: 1, 17: 2, 19: 2, 22: 2}

# fixed body sizes of signature subpackets (5.2.3.x); None = variable
SP_FIXED = {2: 4, 3: 4, 4: 1, 5: 2, 7: 1, 9: 4, 12: 22, 16: 8, 25: 1}


def chash(halg):
    name = CHASH.get(halg)
    cls = getattr(hashes, name, None) if name else None
    if cls is None:
        raise Malformed('hash %r unavailable' % halg)
    return cls()


def parse_sig(body, strict=True):
    body = bytes(body)
    if len(body) < 10:
        raise Malformed('short signature packet')
    if body[0] != 4:
        raise Malformed('signature version %d' % body[0])
    s = {'type': body[1], 'pubalg': body[2], 'halg': body[3]}
    hl = int.from_bytes(body[4:6], 'big')
    if 6 + hl + 2 > len(body):
        raise Malformed('hashed area overruns')
    s['hashed'] = body[6:6 + hl]
    i = 6 + hl
    ul = int.from_bytes(body[i:i + 2], 'big')
    if i + 2 + ul + 2 > len(body):
        raise Malformed('unhashed area overruns')
    s['unhashed'] = body[i + 2:i + 2 + ul]
    i += 2 + ul
    s['left16'] = body[i:i + 2]
    i += 2
    s['hashed_region'] = body[:6 + hl]
    s['mpi_offset'] = i
    mp = []
    n = NMPI.get(s['pubalg'])
    if n is None:
        s['mpis'] = None
        s['sigraw'] = body[i:]
    else:
        for _ in range(n):
            v, i = mpi_dec(body, i, canonical=strict)
            mp.append(v)
        if i != len(body):
            raise Malformed('trailing octets after signature MPIs')
        s['mpis'] = mp
    s['hsp'] = subpackets(s['hashed'])
    s['usp'] = subpackets(s['unhashed'])
    if strict:
        for t, c, b, raw in s['hsp'] + s['usp']:
            if t in SP_FIXED and len(b) != SP_FIXED[t]:
                raise Malformed('subpacket %d has body length %d' % (t, len(b)))
            if t in (33, 35) and b[:1] == b'\x04' and len(b) != 21:
                raise Malformed('fingerprint subpacket length')
            if t == 20:
                if len(b) < 8:
                    raise Malformed('notation too short')
                nl = int.from_bytes(b[4:6], 'big')
                vl = int.from_bytes(b[6:8], 'big')
                if 8 + nl + vl != len(b):
                    raise Malformed('notation lengths do not fill subpacket')
    return s


def sp_get(s, t, hashed_only=False):
    return [b for tt, c, b, raw in (s['hsp'] if hashed_only else s['hsp'] + s['usp']) if tt == t]


def issuer(s):
    v = sp_get(s, 16)
    return v[-1] if v else None


def issuer_fpr(s):
    v = sp_get(s, 33)
    return v[0][1:] if v else None


def created(s):
    v = sp_get(s, 2, hashed_only=True)
    return int.from_bytes(v[-1], 'big') if v else None


def _key(b):
    return b'\x99' + len(b).to_bytes(2, 'big') + bytes(b)


def canon_text(doc):
    """5.2.4 / 5.2.1: text document -- line endings to <CR><LF>.  (Plain LF and CRLF both become CRLF.)"""
    out = bytearray()
    i = 0
    doc = bytes(doc)
    n = len(doc)
    while i < n:
        c = doc[i]
        if c == 0x0D and i + 1 < n and doc[i + 1] == 0x0A:
            out += b'\r\n'
            i += 2
        elif c == 0x0A:
            out += b'\r\n'
            i += 1
        else:
            out.append(c)
            i += 1
    return bytes(out)


def hash_input(sig_or_region, sigtype=None, doc=None, primary=None, subkey=None, uid=None, ua=None):
    """octets that are hashed for a v4 signature.  primary/subkey = public-key packet bodies;
    uid = user id octets; ua = user attribute packet body"""
    if isinstance(sig_or_region, dict):
        region = sig_or_region['hashed_region']
        t = sig_or_region['type']
    else:
        region = bytes(sig_or_region)
        t = region[1]
    if sigtype is not None:
        t = sigtype
    d = b''
    if t == 0x00:
        d += bytes(doc)
    elif t == 0x01:
        d += canon_text(doc)
    elif t in NOSUBJ_TYPES:
        pass
    elif t in CERT_TYPES:
        d += _key(primary)
        if uid is not None:
            d += b'\xb4' + len(uid).to_bytes(4, 'big') + bytes(uid)
        elif ua is not None:
            d += b'\xd1' + len(ua).to_bytes(4, 'big') + bytes(ua)
        else:
            raise ValueError('certification needs uid or ua')
    elif t in KEYBIND_TYPES:
        d += _key(primary) + _key(subkey)
    elif t in DIRECT_TYPES:
        d += _key(primary)
    else:
        raise Malformed('signature type 0x%02x' % t)
    return d + region + b'\x04\xff' + len(region).to_bytes(4, 'big')


def digest(halg, data):
    return hashlib.new(HASHNAME[halg], data).digest()


def verify(sig, pub, data):
    """-> (bool, reason). sig = parse_sig dict, pub = key dict, data = hash_input(...)"""
    if sig['halg'] not in HASHNAME:
        return False, 'hash-unknown'
    h = digest(sig['halg'], data)
    if h[:2] != sig['left16']:
        return False, 'left16'
    alg = pub['alg']
    if sig['pubalg'] != alg and not (sig['pubalg'] in (1, 3) and alg in (1, 3)):
        return False, 'pubalg-mismatch'
    if sig['mpis'] is None:
        return False, 'alg'
    try:
        ch = chash(sig['halg'])
        po = K.pub_obj(pub)
        if alg in (1, 3):
            nlen = (pub['n'].bit_length() + 7) // 8
            if sig['mpis'][0] >= pub['n']:
                return False, 'crypto'
            po.verify(sig['mpis'][0].to_bytes(nlen, 'big'), h, padding.PKCS1v15(), utils.Prehashed(ch))
        elif alg == 17:
            po.verify(utils.encode_dss_signature(*sig['mpis']), h, utils.Prehashed(ch))
        elif alg == 19:
            po.verify(utils.encode_dss_signature(*sig['mpis']), h, ec.ECDSA(utils.Prehashed(ch)))
        elif alg == 22:
            r, s = sig['mpis']
            if r >= 1 << 256 or s >= 1 << 256:
                return False, 'crypto'
            po.verify(r.to_bytes(32, 'big') + s.to_bytes(32, 'big'), h)
        else:
            return False, 'alg'
    except InvalidSignature:
        return False, 'crypto'
    except (ValueError, Malformed) as e:
        return False, 'crypto:%s' % type(e).__name__
    return True, 'ok'


def sign(key, sigtype, halg, hashed, unhashed=b'', **subject):
    """build a complete v4 signature packet body with the reference signer.
    key = full key dict incl. secret fields; hashed/unhashed = raw subpacket areas."""
    alg = key['alg']
    region = bytes([4, sigtype, alg, halg]) + len(hashed).to_bytes(2, 'big') + bytes(hashed)
    data = hash_input(region, **subject)
    h = digest(halg, data)
    ch = chash(halg)
    so = K.priv_obj(key)
    if alg in (1, 3):
        raw = so.sign(h, padding.PKCS1v15(), utils.Prehashed(ch))
        mp = mpi_enc(int.from_bytes(raw, 'big'))
    elif alg == 17:
        r, s = utils.decode_dss_signature(so.sign(h, utils.Prehashed(ch)))
        mp = mpi_enc(r) + mpi_enc(s)
    elif alg == 19:
        r, s = utils.decode_dss_signature(so.sign(h, ec.ECDSA(utils.Prehashed(ch))))
        mp = mpi_enc(r) + mpi_enc(s)
    elif alg == 22:
        raw = so.sign(h)
        mp = mpi_enc(int.from_bytes(raw[:32], 'big')) + mpi_enc(int.from_bytes(raw[32:], 'big'))
    else:
        raise ValueError('cannot sign with alg %d' % alg)
    return region + len(unhashed).to_bytes(2, 'big') + bytes(unhashed) + h[:2] + mp


def std_areas(key, created_ts, extra_hashed=b'', with_fpr=True, issuer_hashed=False):
    """the usual hashed/unhashed areas: creation time [+ issuer fingerprint] hashed, issuer key id unhashed"""
    fpr = K.fpr_of(key)
    hashed = subpacket(2, int(created_ts).to_bytes(4, 'big')) + bytes(extra_hashed)
    if with_fpr:
        hashed += subpacket(33, b'\x04' + fpr)
    iss = subpacket(16, fpr[-8:])
    if issuer_hashed:
        return hashed + iss, b''
    return hashed, iss
