"""Unauthenticated additions: subpackets appended to the *unhashed* area of signatures inside an exported key.  The signatures stay valid
(the unhashed area is not signed), so nothing that is decided from a signature - capabilities, expiry, preferences, exportability, primary
mark, revocability - may change because of them (RFC 4880 5.2.3.2: the unhashed subpackets are advisory and unprotected)."""
from .ref import wire, sig as RS


def inject(blob, types, extra, also_embedded=False):
    """append the raw subpackets `extra` to the unhashed area of every signature packet whose type is in `types` -> new blob, number changed"""
    out = b''
    n = 0
    for p in wire.split(blob):
        if p.tag == 2 and len(p.body) > 2 and p.body[0] == 4 and p.body[1] in types:
            s = RS.parse_sig(p.body, strict=False)
            un = s['unhashed'] + extra
            body = s['hashed_region'] + len(un).to_bytes(2, 'big') + un + p.body[s['mpi_offset'] - 2:]
            out += wire.new_hdr(2, len(body)) + body
            n += 1
        else:
            out += p.raw
    return out, n


def sp(t, body):
    return wire.subpacket(t, body)


# the things an attacker would like a key to say
GRANT_ALL_FLAGS = sp(27, b'\xff')
NEVER_EXPIRES = sp(9, b'\x00\x00\x00\x00')
EXPIRES_IN_100_YEARS = sp(9, (86400 * 36500).to_bytes(4, 'big'))
PRIMARY = sp(25, b'\x01')
NOT_EXPORTABLE = sp(4, b'\x00')
PREFS = sp(11, b'\x02') + sp(21, b'\x01') + sp(22, b'\x00')
SIG_NEVER_EXPIRES = sp(3, b'\x00\x00\x00\x00')
ALL = GRANT_ALL_FLAGS + EXPIRES_IN_100_YEARS + PRIMARY + PREFS
