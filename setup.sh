#!/bin/sh
# offline, idempotent: third-party helpers for the harness go into git-ignored /verif/.deps
cd "$(dirname "$0")" || exit 1
if [ ! -d .deps/icontract ]; then
  PIP_NO_INDEX=1 /venv/bin/pip install -q --no-index --find-links /opt/veriftools/wheels --target .deps icontract jsonschema >/dev/null 2>&1 \
    || echo "setup: optional deps not installed (checks fall back to built-ins)"
fi
mkdir -p evidence replay
echo "setup ok"
